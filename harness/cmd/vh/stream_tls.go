package main

import (
	"archive/zip"
	"bytes"
	"context"
	"crypto/ecdsa"
	"crypto/elliptic"
	"crypto/rand"
	"crypto/tls"
	"crypto/x509"
	"crypto/x509/pkix"
	"encoding/json"
	"encoding/pem"
	"fmt"
	"math/big"
	"net"
	"net/http"
	"strconv"
	"strings"
	"sync"
	"time"

	"github.com/datastax/cql-proxy/astra"
	"github.com/datastax/cql-proxy/proxycore"
	"github.com/datastax/go-cassandra-native-protocol/datatype"
	"github.com/datastax/go-cassandra-native-protocol/message"
	"github.com/datastax/go-cassandra-native-protocol/primitive"
	"verifharness/internal/rng"
)

// tls: Astra-bundle connections against TLS servers presenting generated certificate chains.
// op:   T:<meta|node|hostid> A:<seconds between creating the endpoint and connecting> [H:ip] [E:1] L:<chain>
//         H:ip  the bundle's host is an IP literal (127.0.0.1) instead of a DNS name
//         E:1   another endpoint (another host id) is created from the same resolver before connecting
//         chain = certificates leaf first, separated by ';', each  id.signer.names.notBefore.notAfter.ca
//           id / signer: key identities; 1 = the bundle's CA, 2 = another CA (not in the bundle), others free
//           names: h = the bundle's host, x = another name, n = none, hx = both
//           notBefore / notAfter: seconds relative to the moment the endpoint is created
//           ca: 1/0
//       meta: the chain is presented by the metadata service; node: by a database node reached through a contact
//       point endpoint; hostid: by a node reached through an endpoint built from a system.peers row (host id)
// real: connected=<0|1> bytes=<0|1 application bytes reached the server> sni=<what the server saw: cp|hostid|host|other|-> clientcert=<bundle|other|none>

func init() { streams["tls"] = stream{gen: genTLS, run: runTLS} }

const (
	tlsHost      = "localhost" // the bundle's host name (resolves to loopback)
	tlsOtherName = "other.example"
	tlsCP        = "a1b2c3d4-0000-0000-0000-00000000cafe" // contact point
	tlsHostID    = "b2c3d4e5-1111-2222-3333-00000000beef"
)

type absCert struct {
	id, signer int
	names      string
	nb, na     int
	ca         bool
}

func parseChain(s string) []absCert {
	var out []absCert
	for _, c := range strings.Split(s, ";") {
		p := strings.Split(c, ".")
		if len(p) != 6 {
			continue
		}
		id, _ := strconv.Atoi(p[0])
		sg, _ := strconv.Atoi(p[1])
		nb, _ := strconv.Atoi(p[3])
		na, _ := strconv.Atoi(p[4])
		out = append(out, absCert{id, sg, p[2], nb, na, p[5] == "1"})
	}
	return out
}

type pki struct {
	host string // the bundle's host: a DNS name or an IP literal
	mu   sync.Mutex
	keys map[int]*ecdsa.PrivateKey
	ser  int64
}

func (p *pki) key(id int) *ecdsa.PrivateKey {
	p.mu.Lock()
	defer p.mu.Unlock()
	if k, ok := p.keys[id]; ok {
		return k
	}
	k, _ := ecdsa.GenerateKey(elliptic.P256(), rand.Reader)
	p.keys[id] = k
	return k
}

func subjectOf(id int) pkix.Name { return pkix.Name{CommonName: fmt.Sprintf("key-%d", id)} }

// make renders an abstract certificate as a real one (DER), signed with the signer's key.
func (p *pki) make(c absCert, now time.Time, client bool) []byte {
	p.mu.Lock()
	p.ser++
	ser := p.ser
	p.mu.Unlock()
	tmpl := &x509.Certificate{
		SerialNumber:          big.NewInt(ser),
		Subject:               subjectOf(c.id),
		NotBefore:             now.Add(time.Duration(c.nb) * time.Second),
		NotAfter:              now.Add(time.Duration(c.na) * time.Second),
		BasicConstraintsValid: true,
		IsCA:                  c.ca,
		KeyUsage:              x509.KeyUsageDigitalSignature,
	}
	if c.ca {
		tmpl.KeyUsage |= x509.KeyUsageCertSign
	} else if client {
		tmpl.ExtKeyUsage = []x509.ExtKeyUsage{x509.ExtKeyUsageClientAuth}
	} else {
		tmpl.ExtKeyUsage = []x509.ExtKeyUsage{x509.ExtKeyUsageServerAuth}
	}
	if strings.Contains(c.names, "h") {
		if ip := net.ParseIP(p.host); ip != nil {
			tmpl.IPAddresses = append(tmpl.IPAddresses, ip)
		} else {
			tmpl.DNSNames = append(tmpl.DNSNames, p.host)
		}
	}
	if strings.Contains(c.names, "x") {
		tmpl.DNSNames = append(tmpl.DNSNames, tlsOtherName)
	}
	parent := tmpl
	if c.signer != c.id {
		parent = &x509.Certificate{Subject: subjectOf(c.signer), IsCA: true, BasicConstraintsValid: true}
	}
	der, err := x509.CreateCertificate(rand.Reader, tmpl, parent, &p.key(c.id).PublicKey, p.key(c.signer))
	if err != nil {
		panic(err)
	}
	return der
}

func pemOf(typ string, der []byte) []byte { return pem.EncodeToMemory(&pem.Block{Type: typ, Bytes: der}) }

type tlsObs struct {
	mu       sync.Mutex
	sni      string
	peer     []byte
	appBytes int
	shook    bool
}

// serveChain: a TLS listener presenting the chain; records SNI, the client certificate and application bytes.
func serveChain(chainDER [][]byte, leafKey *ecdsa.PrivateKey, obs *tlsObs, handler func(c *tls.Conn)) (net.Listener, error) {
	ln, err := net.Listen("tcp", "127.0.0.1:0")
	if err != nil {
		return nil, err
	}
	cfg := &tls.Config{
		Certificates: []tls.Certificate{{Certificate: chainDER, PrivateKey: leafKey}},
		ClientAuth:   tls.RequestClientCert,
		GetConfigForClient: func(h *tls.ClientHelloInfo) (*tls.Config, error) {
			obs.mu.Lock()
			obs.sni = h.ServerName
			obs.mu.Unlock()
			return nil, nil
		},
	}
	go func() {
		for {
			c, err := ln.Accept()
			if err != nil {
				return
			}
			go func(c net.Conn) {
				defer c.Close()
				tc := tls.Server(c, cfg)
				_ = tc.SetDeadline(time.Now().Add(3 * time.Second))
				if err := tc.Handshake(); err != nil {
					return
				}
				obs.mu.Lock()
				obs.shook = true
				if pcs := tc.ConnectionState().PeerCertificates; len(pcs) > 0 {
					obs.peer = pcs[0].Raw
				}
				obs.mu.Unlock()
				if handler != nil {
					handler(tc)
					return
				}
				buf := make([]byte, 256)
				_ = tc.SetReadDeadline(time.Now().Add(600 * time.Millisecond))
				n, _ := tc.Read(buf)
				obs.mu.Lock()
				obs.appBytes += n
				obs.mu.Unlock()
			}(c)
		}
	}()
	return ln, nil
}

func runTLS(op string) (out string) {
	defer func() {
		if p := recover(); p != nil {
			out = fmt.Sprintf("panic:%v", p)
		}
	}()
	target, age, chainS, host, extraEndpoint := "node", 0, "", tlsHost, false
	for _, t := range strings.Fields(op) {
		switch {
		case strings.HasPrefix(t, "T:"):
			target = t[2:]
		case strings.HasPrefix(t, "A:"):
			age, _ = strconv.Atoi(t[2:])
		case strings.HasPrefix(t, "L:"):
			chainS = t[2:]
		case t == "H:ip":
			host = "127.0.0.1"
		case t == "E:1":
			extraEndpoint = true
		}
	}
	chain := parseChain(chainS)
	if len(chain) == 0 {
		return "bad-op"
	}
	p := &pki{host: host, keys: map[int]*ecdsa.PrivateKey{}}
	now := time.Now()
	caDER := p.make(absCert{1, 1, "n", -3600, 36000, true}, now, false)
	clientDER := p.make(absCert{900, 1, "n", -3600, 36000, false}, now, true)
	clientKeyDER, _ := x509.MarshalECPrivateKey(p.key(900))
	goodDER := p.make(absCert{901, 1, "h", -3600, 36000, false}, now, false) // a well-behaved server certificate
	var chainDER [][]byte
	for _, c := range chain {
		if c.id == 1 && c.signer == 1 {
			chainDER = append(chainDER, caDER) // the bundle's CA certificate itself
			continue
		}
		chainDER = append(chainDER, p.make(c, now, false))
	}
	testObs, goodObs := &tlsObs{}, &tlsObs{}
	// the server under test and, for node targets, a well-behaved metadata service
	var nodeLn, metaLn net.Listener
	var err error
	metaHandler := func(sni string) func(c *tls.Conn) {
		return func(c *tls.Conn) {
			ln := &oneConnListener{c: c, done: make(chan struct{})}
			mux := http.NewServeMux()
			mux.HandleFunc("/metadata", func(w http.ResponseWriter, r *http.Request) {
				testObs.mu.Lock()
				if sni == "" {
					testObs.appBytes++ // the request reached the service under test
				}
				testObs.mu.Unlock()
				b, _ := json.Marshal(map[string]interface{}{"version": 1, "region": "", "contact_info": map[string]interface{}{
					"type": "sni_proxy", "local_dc": "dc1", "sni_proxy_address": sni, "contact_points": []string{tlsCP}}})
				_, _ = w.Write(b)
			})
			srv := &http.Server{Handler: mux}
			go func() { time.Sleep(800 * time.Millisecond); _ = srv.Close() }()
			_ = srv.Serve(ln)
		}
	}
	if target == "meta" {
		metaLn, err = serveChain(chainDER, p.key(chain[0].id), testObs, metaHandler(""))
		if err != nil {
			return "env-error"
		}
		defer metaLn.Close()
	} else {
		nodeLn, err = serveChain(chainDER, p.key(chain[0].id), testObs, nil)
		if err != nil {
			return "env-error"
		}
		defer nodeLn.Close()
		metaLn, err = serveChain([][]byte{goodDER}, p.key(901), goodObs, metaHandler(nodeLn.Addr().String()))
		if err != nil {
			return "env-error"
		}
		defer metaLn.Close()
	}
	// the bundle
	var zb bytes.Buffer
	zw := zip.NewWriter(&zb)
	add := func(name string, b []byte) {
		w, _ := zw.Create(name)
		_, _ = w.Write(b)
	}
	cfgJSON, _ := json.Marshal(map[string]interface{}{"host": host, "port": metaLn.Addr().(*net.TCPAddr).Port})
	add("config.json", cfgJSON)
	add("ca.crt", pemOf("CERTIFICATE", caDER))
	add("cert", pemOf("CERTIFICATE", clientDER))
	add("key", pemOf("EC PRIVATE KEY", clientKeyDER))
	_ = zw.Close()
	zr, err := zip.NewReader(bytes.NewReader(zb.Bytes()), int64(zb.Len()))
	if err != nil {
		return "env-error:zip"
	}
	bundle, err := astra.LoadBundleZip(zr)
	if err != nil {
		return "bundle-error:" + strings.ReplaceAll(err.Error(), " ", "_")
	}
	resolver := astra.NewResolver(bundle, 3*time.Second)
	connected := false
	if target == "meta" {
		if age > 0 {
			time.Sleep(time.Duration(age) * time.Second)
		}
		ctx, cancel := context.WithTimeout(context.Background(), 3*time.Second)
		_, err := resolver.Resolve(ctx)
		cancel()
		connected = err == nil
	} else {
		ctx, cancel := context.WithTimeout(context.Background(), 3*time.Second)
		eps, err := resolver.Resolve(ctx)
		cancel()
		if err != nil || len(eps) == 0 {
			return "env-error:resolve:" + strings.ReplaceAll(fmt.Sprint(err), " ", "_")
		}
		ep := eps[0]
		if target == "hostid" {
			id, _ := primitive.ParseUuid(tlsHostID)
			cols := []*message.ColumnMetadata{{Keyspace: "system", Table: "peers", Name: "data_center", Index: 0, Type: datatype.Varchar},
				{Keyspace: "system", Table: "peers", Name: "host_id", Index: 1, Type: datatype.Uuid}}
			rs := proxycore.NewResultSet(&message.RowsResult{Metadata: &message.RowsMetadata{ColumnCount: 2, Columns: cols},
				Data: message.RowSet{message.Row{[]byte("dc1"), id[:]}}}, primitive.ProtocolVersion4)
			ep, err = resolver.NewEndpoint(rs.Row(0))
			if err != nil {
				return "env-error:newendpoint"
			}
		}
		if extraEndpoint { // an endpoint for another node, created later and never used
			id2, _ := primitive.ParseUuid("c3d4e5f6-4444-5555-6666-00000000f00d")
			cols := []*message.ColumnMetadata{{Keyspace: "system", Table: "peers", Name: "data_center", Index: 0, Type: datatype.Varchar},
				{Keyspace: "system", Table: "peers", Name: "host_id", Index: 1, Type: datatype.Uuid}}
			rs := proxycore.NewResultSet(&message.RowsResult{Metadata: &message.RowsMetadata{ColumnCount: 2, Columns: cols},
				Data: message.RowSet{message.Row{[]byte("dc1"), id2[:]}}}, primitive.ProtocolVersion4)
			if _, err := resolver.NewEndpoint(rs.Row(0)); err != nil {
				return "env-error:newendpoint2"
			}
		}
		if age > 0 {
			time.Sleep(time.Duration(age) * time.Second)
		}
		ctx, cancel = context.WithTimeout(context.Background(), 3*time.Second)
		cl, err := proxycore.ConnectClient(ctx, ep, proxycore.ClientConnConfig{})
		if err == nil {
			connected = true
			hctx, hcancel := context.WithTimeout(context.Background(), 400*time.Millisecond)
			_, _ = cl.Handshake(hctx, primitive.ProtocolVersion4, nil) // sends STARTUP; the test server never answers
			hcancel()
			_ = cl.Close()
		}
		cancel()
	}
	time.Sleep(80 * time.Millisecond)
	testObs.mu.Lock()
	defer testObs.mu.Unlock()
	sni := "-"
	switch testObs.sni {
	case "":
	case tlsCP:
		sni = "cp"
	case tlsHostID:
		sni = "hostid"
	case host:
		sni = "host"
	default:
		sni = "other"
	}
	cc := "none"
	if testObs.peer != nil {
		if bytes.Equal(testObs.peer, clientDER) {
			cc = "bundle"
		} else {
			cc = "other"
		}
	}
	b := 0
	if testObs.appBytes > 0 {
		b = 1
	}
	c := 0
	if connected {
		c = 1
	}
	return fmt.Sprintf("connected=%d bytes=%d sni=%s clientcert=%s", c, b, sni, cc)
}

type oneConnListener struct {
	c    net.Conn
	once sync.Once
	done chan struct{}
}

func (l *oneConnListener) Accept() (net.Conn, error) {
	var c net.Conn
	l.once.Do(func() { c = l.c })
	if c != nil {
		return c, nil
	}
	<-l.done
	return nil, fmt.Errorf("closed")
}
func (l *oneConnListener) Close() error {
	select {
	case <-l.done:
	default:
		close(l.done)
	}
	return nil
}
func (l *oneConnListener) Addr() net.Addr { return l.c.LocalAddr() }

func genTLS(e *emitter, r *rng.R, n int, tier string) {
	var ops []string
	defer func() { e.emitAll(ops, 12) }()
	cert := func(id, signer int, names string, nb, na int, ca bool) string {
		c := 0
		if ca {
			c = 1
		}
		return fmt.Sprintf("%d.%d.%s.%d.%d.%d", id, signer, names, nb, na, c)
	}
	V := func(id, signer int, names string, ca bool) string { return cert(id, signer, names, -3600, 36000, ca) }
	named := map[string]string{
		"valid-leaf":                  V(10, 1, "h", false),
		"valid-leaf-two-names":        V(10, 1, "hx", false),
		"other-ca-leaf":               V(10, 2, "h", false),
		"other-ca-leaf-with-its-ca":   V(10, 2, "h", false) + ";" + V(2, 2, "n", true),
		"self-signed":                 V(10, 10, "h", false),
		"self-signed-ca":              V(10, 10, "h", true),
		"self-signed-twice":           V(10, 10, "h", true) + ";" + V(10, 10, "h", true),
		"wrong-name":                  V(10, 1, "x", false),
		"no-name":                     V(10, 1, "n", false),
		"expired":                     cert(10, 1, "h", -7200, -60, false),
		"not-yet-valid":               cert(10, 1, "h", 600, 36000, false),
		"intermediate-present":        V(10, 20, "h", false) + ";" + V(20, 1, "n", true),
		"intermediate-missing":        V(10, 20, "h", false),
		"intermediate-not-ca":         V(10, 20, "h", false) + ";" + V(20, 1, "n", false),
		"intermediate-expired":        V(10, 20, "h", false) + ";" + cert(20, 1, "n", -7200, -60, true),
		"intermediate-other-ca":       V(10, 20, "h", false) + ";" + V(20, 2, "n", true),
		"two-intermediates":           V(10, 20, "h", false) + ";" + V(20, 21, "n", true) + ";" + V(21, 1, "n", true),
		"two-intermediates-reordered": V(10, 20, "h", false) + ";" + V(21, 1, "n", true) + ";" + V(20, 21, "n", true),
		"intermediates-loop":          V(10, 20, "h", false) + ";" + V(20, 21, "n", true) + ";" + V(21, 20, "n", true),
		"leaf-signed-by-leaf":         V(10, 11, "h", false) + ";" + V(11, 1, "h", false),
		"bundle-ca-as-leaf":           V(1, 1, "n", true),
		"valid-leaf-with-ca-appended": V(10, 1, "h", false) + ";" + V(1, 1, "n", true),
		"valid-leaf-with-junk":        V(10, 1, "h", false) + ";" + V(30, 2, "x", true) + ";" + V(31, 31, "h", false),
		"wrong-name-right-name-extra": V(10, 1, "x", false) + ";" + V(11, 1, "h", false),
	}
	var names []string
	for k := range named {
		names = append(names, k)
	}
	sortStrings(names)
	for _, t := range []string{"meta", "node", "hostid"} {
		for _, k := range names {
			ops = append(ops, fmt.Sprintf("T:%s A:0 L:%s", t, named[k]))
		}
		// a bundle whose host is an IP literal: the name check is against the certificate's IP addresses
		for _, k := range []string{"valid-leaf", "wrong-name", "no-name", "other-ca-leaf", "self-signed", "wrong-name-right-name-extra", "intermediate-present"} {
			ops = append(ops, fmt.Sprintf("T:%s A:0 H:ip L:%s", t, named[k]))
		}
	}
	// every endpoint carries its own node id, however many the resolver has made
	for _, k := range []string{"valid-leaf", "wrong-name", "intermediate-present"} {
		ops = append(ops, fmt.Sprintf("T:node A:0 E:1 L:%s", named[k]), fmt.Sprintf("T:hostid A:0 E:1 L:%s", named[k]), fmt.Sprintf("T:hostid A:0 E:1 H:ip L:%s", named[k]))
	}
	// validity against the time of the handshake, not the time the endpoint was created
	ops = append(ops, "T:node A:2 L:"+cert(10, 1, "h", -3600, 1, false), "T:hostid A:2 L:"+cert(10, 1, "h", -3600, 1, false),
		"T:node A:2 L:"+cert(10, 1, "h", 1, 3600, false), "T:meta A:2 L:"+cert(10, 1, "h", -3600, 1, false),
		"T:node A:2 L:"+V(10, 20, "h", false)+";"+cert(20, 1, "n", -3600, 1, true))
	// generated chains
	for i := 0; i < n; i++ {
		rr := r.Fork(uint64(i))
		depth := rr.Intn(4)
		ids := []int{10}
		for d := 0; d < depth; d++ {
			ids = append(ids, 20+d)
		}
		var cs []string
		for j, id := range ids {
			signer := 1
			if j+1 < len(ids) {
				signer = ids[j+1]
			}
			switch rr.Intn(10) {
			case 0:
				signer = 2
			case 1:
				signer = id
			case 2:
				signer = 40 + rr.Intn(2)
			}
			nm := "n"
			if j == 0 {
				nm = rr.Pick([]string{"h", "h", "h", "x", "n", "hx"})
			} else if rr.Intn(5) == 0 {
				nm = "h"
			}
			nb, na := -3600, 36000
			switch rr.Intn(9) {
			case 0:
				nb, na = -7200, -60
			case 1:
				nb, na = 600, 36000
			}
			ca := j > 0
			if rr.Intn(8) == 0 {
				ca = !ca
			}
			cs = append(cs, cert(id, signer, nm, nb, na, ca))
		}
		if rr.Intn(4) == 0 && len(cs) > 2 { // shuffle the intermediates
			cs[1], cs[len(cs)-1] = cs[len(cs)-1], cs[1]
		}
		if rr.Intn(6) == 0 {
			cs = append(cs, V(2, 2, "n", true))
		}
		extra := ""
		if rr.Intn(4) == 0 {
			extra += " H:ip"
		}
		tgt := rr.Pick([]string{"meta", "node", "hostid"})
		if tgt != "meta" && rr.Intn(4) == 0 {
			extra += " E:1"
		}
		ops = append(ops, fmt.Sprintf("T:%s A:0%s L:%s", tgt, extra, strings.Join(cs, ";")))
	}
}

func sortStrings(s []string) {
	for i := 1; i < len(s); i++ {
		for j := i; j > 0 && s[j] < s[j-1]; j-- {
			s[j], s[j-1] = s[j-1], s[j]
		}
	}
}
