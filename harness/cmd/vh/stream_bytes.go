package main

import (
	"bytes"
	"encoding/hex"
	"fmt"
	"os"
	"reflect"
	"sort"
	"strconv"
	"strings"
	"sync"
	"time"

	"github.com/datastax/go-cassandra-native-protocol/datatype"
	"github.com/datastax/go-cassandra-native-protocol/frame"
	"github.com/datastax/go-cassandra-native-protocol/message"
	"github.com/datastax/go-cassandra-native-protocol/primitive"
	"verifharness/internal/e2e"
	"verifharness/internal/fakecass"
	"verifharness/internal/rng"
)

// bytes: what the backend receives for a forwarded request and what the client receives for the backend's answer,
// byte for byte (C03), with and without a write-consistency override in force (C12).
// op:   V:<version> Z:<compression|-> U:<unsupported consistencies, comma separated|-> R:<override> S:<seed of the request/response generator> N:<requests>
//       G:<n> (optional): at the end the client pipelines n SELECTs with 16 KiB answers without reading in between, then reads
//       them all: every answer must arrive, with the bytes the backend sent for that request (one token for the burst)
// real: per request one token:  same | stream-only | <what differs>   (request path), then "/" and the response path token

func init() { streams["bytes"] = stream{gen: genBytes, run: runBytes} }

const stmtTruncate = "TRUNCATE ks.t"

type sentReq struct {
	raw      []byte
	msg      message.Message
	opcode   primitive.OpCode
	isSelect bool
	cons     primitive.ConsistencyLevel
	payload  map[string][]byte
	tracing  bool
}

func consistencyOf(m message.Message) primitive.ConsistencyLevel {
	switch x := m.(type) {
	case *message.Query:
		return x.Options.Consistency
	case *message.Execute:
		return x.Options.Consistency
	case *message.Batch:
		return x.Consistency
	}
	return 0
}

func setConsistency(m message.Message, c primitive.ConsistencyLevel) {
	switch x := m.(type) {
	case *message.Query:
		x.Options.Consistency = c
	case *message.Execute:
		x.Options.Consistency = c
	case *message.Batch:
		x.Consistency = c
	}
}

func runBytes(op string) (out string) {
	defer func() {
		if p := recover(); p != nil {
			out = fmt.Sprintf("panic:%v", strings.ReplaceAll(fmt.Sprint(p), " ", "_"))
		}
	}()
	par := map[string]string{"V": "4", "Z": "-", "U": "-", "R": "6", "S": "1", "N": "8"}
	for _, t := range strings.Fields(op) {
		if len(t) > 2 && t[1] == ':' {
			par[t[:1]] = t[2:]
		}
	}
	vi, _ := strconv.Atoi(par["V"])
	version := primitive.ProtocolVersion(vi)
	comp := par["Z"]
	if comp == "-" {
		comp = ""
	}
	var unsupported []uint16
	if par["U"] != "-" {
		for _, u := range strings.Split(par["U"], ",") {
			n, _ := strconv.Atoi(u)
			unsupported = append(unsupported, uint16(n))
		}
	}
	override, _ := strconv.Atoi(par["R"])
	seed, _ := strconv.Atoi(par["S"])
	nreq, _ := strconv.Atoi(par["N"])
	maxV := version
	if maxV < 4 {
		maxV = 4
	}
	env, err := e2e.Start(e2e.Options{Hosts: 1, MaxVersion: maxV, Version: primitive.ProtocolVersion3, BackendMax: primitive.ProtocolVersionDse2,
		HasOverride: par["U"] != "-", Unsupported: unsupported, Override: uint16(override)})
	if err != nil {
		return "env-error:" + err.Error()
	}
	defer env.Close()
	r := rng.New(uint64(seed))
	var mu sync.Mutex
	got := map[int16]*fakecass.Request{}
	respMsgs := map[int16]message.Message{}
	var held []*fakecass.Request
	holding := false
	bursting := false
	burstReq := map[int]*fakecass.Request{}
	env.Cluster.Handler = func(rq *fakecass.Request) fakecass.Response {
		mu.Lock()
		defer mu.Unlock()
		if bursting {
			k := -1
			if rq.Frame != nil {
				if q, ok := rq.Frame.Body.Message.(*message.Query); ok {
					if i := strings.LastIndex(q.Query, "= "); i >= 0 {
						k, _ = strconv.Atoi(q.Query[i+2:])
					}
				}
			}
			burstReq[k] = rq
			return fakecass.Response{Kind: fakecass.RespMsg, Msg: rowsWith(fmt.Sprintf("%06d", k) + strings.Repeat("v", 16*1024))}
		}
		if holding {
			held = append(held, rq)
			if len(held) <= 2 {
				return fakecass.Response{Kind: fakecass.RespSilent}
			}
			return fakecass.Response{Kind: fakecass.RespMsg, Msg: &message.VoidResult{}}
		}
		got[rq.Header.StreamId] = rq // backend stream ids are unique per in-flight request; requests are sequential here
		got[-1] = rq
		rr := rng.New(uint64(seed)*7919 + uint64(len(got)))
		resp := fakecass.Response{Kind: fakecass.RespMsg}
		switch rr.Intn(8) {
		case 0:
			resp.Msg = &message.VoidResult{}
		case 1:
			resp.Msg = rowsWith(string(rr.Bytes(rr.Intn(2000))))
		case 2:
			resp.Msg = errFor([]string{"wf", "inv", "syn", "ae", "ff", "cfg", "unauth", "wt:SIMPLE", "rt:1:2:1", "rf", "wt:CAS", "rt:1:3:1", "inv", "syn"}[rr.Intn(14)] /* kinds the policy never retries: the answer must come through unchanged */, "e")
		case 3:
			resp.Msg = &message.SetKeyspaceResult{Keyspace: "ks"}
		case 4:
			resp.Msg = &message.SchemaChangeResult{ChangeType: primitive.SchemaChangeTypeCreated, Target: primitive.SchemaChangeTargetTable, Keyspace: "ks", Object: "t"}
		default:
			resp.Msg = rowsWith("x")
		}
		if rq.Header.OpCode == primitive.OpCodePrepare {
			q := ""
			if rq.Frame != nil {
				q = rq.Frame.Body.Message.(*message.Prepare).Query
			}
			pr := &message.PreparedResult{PreparedQueryId: pid(q), ResultMetadataId: pid(q + "m")}
			if strings.Contains(q, "/*big*/") { // thousands of result columns: decoding this answer takes a while
				cols := make([]*message.ColumnMetadata, 6000)
				for i := range cols {
					cols[i] = &message.ColumnMetadata{Keyspace: "ks", Table: "t", Name: fmt.Sprintf("a_rather_long_column_name_%05d", i), Index: int32(i), Type: datatype.Varchar}
				}
				pr.ResultMetadata = &message.RowsMetadata{ColumnCount: int32(len(cols)), Columns: cols}
			}
			resp.Msg = pr
		}
		if _, isErr := resp.Msg.(message.Error); !isErr || rr.Bool() {
			if rr.Chance(1, 4) {
				id := primitive.UUID{}
				copy(id[:], rr.Bytes(16))
				resp.TracingId = &id
			}
			if rr.Chance(1, 4) && version >= 4 {
				resp.Warnings = []string{"w1", "warning two"}
			}
			if rr.Chance(1, 4) && version >= 4 {
				resp.CustomPayload = map[string][]byte{"k": rr.Bytes(5)}
			}
		}
		respMsgs[rq.Header.StreamId] = resp.Msg
		return resp
	}
	cl, err := env.Dial(version, comp)
	if err != nil {
		return "dial-error:" + err.Error()
	}
	defer cl.Close()
	// prepared statements of both kinds (their ids are what EXECUTE / BATCH children refer to)
	prepared := map[string]bool{}
	for _, q := range []string{stmtSelect, stmtIdem, stmtTruncate} {
		_ = cl.Send(1, &message.Prepare{Query: q})
		if _, err := cl.Recv(3 * time.Second); err != nil {
			return "prepare-unanswered"
		}
		prepared[q] = true
	}
	isUnsupported := func(c primitive.ConsistencyLevel) bool {
		for _, u := range unsupported {
			if primitive.ConsistencyLevel(u) == c {
				return true
			}
		}
		return false
	}
	var res []string
	for i := 0; i < nreq; i++ {
		rr := r.Fork(uint64(i))
		var msg message.Message
		isSelect := false
		opts := genQueryOptions(rr, version)
		switch rr.Intn(5) {
		case 0:
			msg = &message.Query{Query: stmtSelect, Options: opts}
			isSelect = true
		case 1:
			txt := genStatement(rr, 2).text
			if strings.Contains(strings.ToLower(txt), "system.") || strings.HasPrefix(strings.ToLower(txt), "select") {
				txt = stmtSelect // statements the proxy answers itself are C09/C10's subject
			}
			msg = &message.Query{Query: txt, Options: opts}
			isSelect = strings.HasPrefix(strings.ToUpper(strings.TrimSpace(msg.(*message.Query).Query)), "SELECT")
		case 2:
			q := stmtIdem
			switch rr.Intn(5) {
			case 0, 1:
				q, isSelect = stmtSelect, true
			case 2:
				q = stmtTruncate // not a SELECT, and not a statement the idempotency parser knows either
			}
			ex := &message.Execute{QueryId: pid(q), Options: opts}
			if version == primitive.ProtocolVersion5 || version == primitive.ProtocolVersionDse2 {
				ex.ResultMetadataId = pid(q + "m")
			}
			msg = ex
		case 3:
			_, m := genRefMessage(rr, version)
			if _, ok := m.(*message.Batch); !ok {
				m = &message.Batch{Type: primitive.BatchTypeLogged, Consistency: opts.Consistency, Children: []*message.BatchChild{{Query: stmtIdem}}}
			}
			msg = m
		default:
			txt := genStatement(rr, 1).text
			if strings.Contains(strings.ToLower(txt), "system.") || strings.HasPrefix(strings.ToLower(txt), "select") {
				txt = stmtIdem
			}
			msg = &message.Prepare{Query: txt}
		}
		stream := int16(rr.Intn(32000) + 100)
		tracing := rr.Chance(1, 4)
		var payload map[string][]byte
		if version >= 4 && rr.Chance(1, 4) {
			payload = map[string][]byte{"a": rr.Bytes(3), "bb": {}}
		}
		raw, err := cl.Encode(stream, msg, func(f *frame.Frame) {
			if payload != nil {
				f.SetCustomPayload(payload)
			}
		})
		if err != nil {
			res = append(res, "unencodable")
			continue
		}
		if tracing {
			// the tracing flag of a *request* asks for tracing; it adds nothing to the body (the reference
			// encoder would declare 16 bytes too many, so the flag is set on the encoded bytes)
			raw[1] |= 0x02
		}
		mu.Lock()
		delete(got, -1)
		mu.Unlock()
		if cl.WriteBytes(raw) != nil {
			res = append(res, "closed")
			break
		}
		reply, err := cl.Recv(3 * time.Second)
		mu.Lock()
		rq := got[-1]
		mu.Unlock()
		if os.Getenv("VH_DEBUG") != "" {
			fmt.Fprintf(os.Stderr, "req %d: %T tracing=%v payload=%v raw=%x\n  reply err=%v\n", i, msg, tracing, payload != nil, raw[:min(len(raw), 60)], err)
		}
		reqTok, respTok := "not-forwarded", "none"
		if rq != nil {
			hdrSame := rq.RawHeader[0] == raw[0] && rq.RawHeader[1] == raw[1] && rq.RawHeader[4] == raw[4]
			lenOK := int(int32(uint32(rq.RawHeader[5])<<24|uint32(rq.RawHeader[6])<<16|uint32(rq.RawHeader[7])<<8|uint32(rq.RawHeader[8]))) == len(rq.RawBody)
			inList := par["U"] != "-" && !isSelect && msg.GetOpCode() != primitive.OpCodePrepare && isUnsupported(consistencyOf(msg))
			expectOverride := inList && consistencyOf(msg) != primitive.ConsistencyLevel(override)
			switch {
			case !hdrSame:
				reqTok = fmt.Sprintf("header-differs:%x-vs-%x", rq.RawHeader, raw[:9])
			case !lenOK:
				reqTok = "bad-length"
			case bytes.Equal(rq.RawBody, raw[9:]):
				reqTok = "same"
				if expectOverride {
					reqTok = "override-missing"
				}
			default:
				// different bytes: acceptable only as the override of exactly the consistency
				if rq.Frame == nil {
					reqTok = "undecodable-at-backend"
				} else if !inList {
					reqTok = "body-differs"
					if os.Getenv("VH_DEBUG") != "" {
						fmt.Fprintf(os.Stderr, "  body-differs cons=%d isSelect=%v\n  client  %x\n  backend %x\n", consistencyOf(msg), isSelect, raw[9:min(len(raw), 120)], rq.RawBody[:min(len(rq.RawBody), 111)])
					}
				} else {
					want := msg.DeepCopyMessage()
					setConsistency(want, primitive.ConsistencyLevel(override))
					if !reflect.DeepEqual(normMsg(want), normMsg(rq.Frame.Body.Message)) {
						reqTok = "override-changed-more-than-consistency"
					} else if !reflect.DeepEqual(payload, rq.Frame.Body.CustomPayload) && !(len(payload) == 0 && len(rq.Frame.Body.CustomPayload) == 0) {
						reqTok = "override-lost-custom-payload"
					} else if expectOverride {
						reqTok = "overridden"
					} else {
						reqTok = "same" // re-encoded with the same meaning (override equals the original consistency)
					}
				}
			}
		} else if err == nil && reply != nil && reply.Frame != nil {
			if e, ok := reply.Frame.Body.Message.(message.Error); ok {
				reqTok = "not-forwarded:" + strings.ReplaceAll(e.GetErrorMessage(), " ", "_")
			}
		}
		if err == nil && reply != nil && rq != nil {
			sent := rq.Sent()
			switch {
			case len(sent) < 9:
				respTok = "backend-wrote-nothing"
			case reply.RawHeader[0] != sent[0] || reply.RawHeader[1] != sent[1] || reply.RawHeader[4] != sent[4]:
				respTok = "resp-header-differs"
			case reply.Header != nil && reply.Header.StreamId != stream:
				respTok = "resp-wrong-stream"
			case !bytes.Equal(reply.RawBody, sent[9:]):
				respTok = "resp-body-differs"
			case !bytes.Equal(reply.RawHeader[5:9], sent[5:9]):
				respTok = "resp-length-differs"
			default:
				respTok = "same"
			}
		} else if err == nil && reply != nil {
			respTok = "local"
		}
		if os.Getenv("VH_DEBUG") != "" && (strings.Contains(respTok, "differs") || strings.Contains(reqTok, "missing")) && rq != nil {
			fmt.Fprintf(os.Stderr, "  %s/%s isSelect=%v cons=%d\n  sent  %x\n  reply %x %x\n", reqTok, respTok, isSelect, consistencyOf(msg), rq.Sent()[:min(len(rq.Sent()), 80)], reply.RawHeader, reply.RawBody[:min(len(reply.RawBody), 70)])
		}
		res = append(res, reqTok+"/"+respTok)
		if rq == nil && err != nil {
			break // the connection is gone
		}
	}
	mainOK := len(res) == nreq && nreq > 0 && !strings.Contains(res[len(res)-1], "closed")
	// a SELECT prepared on one connection and executed on another is still a SELECT: never overridden
	if mainOK && len(unsupported) > 0 {
		if cl2, err := env.Dial(version, comp); err == nil {
			ex := &message.Execute{QueryId: pid(stmtSelect), ResultMetadataId: pid(stmtSelect + "m"), Options: &message.QueryOptions{Consistency: primitive.ConsistencyLevel(unsupported[0])}}
			raw, err := cl2.Encode(77, ex, nil)
			mu.Lock()
			delete(got, -1)
			mu.Unlock()
			tok := "same"
			if err == nil && cl2.WriteBytes(raw) == nil {
				_, rerr := cl2.Recv(3 * time.Second)
				mu.Lock()
				rq := got[-1]
				mu.Unlock()
				switch {
				case rerr != nil || rq == nil:
					tok = "select-on-other-connection-lost"
				case rq.Frame == nil:
					tok = "undecodable-at-backend"
				default:
					if e2, ok := rq.Frame.Body.Message.(*message.Execute); !ok || e2.Options.Consistency != primitive.ConsistencyLevel(unsupported[0]) {
						tok = "override-of-select-prepared-on-another-connection"
					}
				}
			}
			cl2.Close()
			res = append(res, tok+"/same")
		}
	}
	// what the proxy learns from a PREPARED answer it knows by the time the client has that answer: an EXECUTE of a
	// SELECT sent the moment its (large) PREPARED result arrives is not overridden
	if mainOK && len(unsupported) > 0 {
		bigQ := stmtSelect + " /*big*/"
		_ = cl.Send(90, &message.Prepare{Query: bigQ})
		tok := "same"
		if pr, err := cl.Recv(5 * time.Second); err != nil || pr.Frame == nil {
			tok = "big-prepare-unanswered"
		} else if p, ok := pr.Frame.Body.Message.(*message.PreparedResult); !ok {
			tok = "big-prepare-refused"
		} else {
			mu.Lock()
			delete(got, -1)
			mu.Unlock()
			_ = cl.Send(91, &message.Execute{QueryId: p.PreparedQueryId, ResultMetadataId: p.ResultMetadataId, Options: &message.QueryOptions{Consistency: primitive.ConsistencyLevel(unsupported[0])}})
			_, rerr := cl.Recv(3 * time.Second)
			mu.Lock()
			rq := got[-1]
			mu.Unlock()
			if rerr != nil || rq == nil || rq.Frame == nil {
				tok = "execute-after-big-prepare-lost"
			} else if e2, ok := rq.Frame.Body.Message.(*message.Execute); !ok || e2.Options.Consistency != primitive.ConsistencyLevel(unsupported[0]) {
				tok = "override-of-select-executed-right-after-its-prepare"
			}
		}
		res = append(res, tok+"/same")
	}
	// a retried write must carry the bytes of its first attempt, whatever went through the connection in between:
	// two writes in flight, the first answered with a write timeout of the batch log (retried once on the same host)
	if mainOK {
		mu.Lock()
		holding = true
		mu.Unlock()
		cons := primitive.ConsistencyLevelOne
		if len(unsupported) > 0 {
			cons = primitive.ConsistencyLevel(unsupported[0])
		}
		w := func(st int16, v string) {
			_ = cl.Send(st, &message.Query{Query: "INSERT INTO ks.t (k, v) VALUES (1, '" + v + "')", Options: &message.QueryOptions{Consistency: cons}})
		}
		waitHeld := func(n int) bool {
			for i := 0; i < 2000; i++ {
				mu.Lock()
				k := len(held)
				mu.Unlock()
				if k >= n {
					return true
				}
				time.Sleep(time.Millisecond)
			}
			return false
		}
		w(501, "first")
		ok := waitHeld(1)
		w(502, "the second write, with a longer value than the first one")
		ok = ok && waitHeld(2)
		tok := "retry-none"
		if ok {
			mu.Lock()
			h0, h1 := held[0], held[1]
			mu.Unlock()
			_ = h0.Conn.Send(h0.Header.Version, h0.Header.StreamId, &message.WriteTimeout{ErrorMessage: "wt", Consistency: primitive.ConsistencyLevelOne, Received: 0, BlockFor: 1, WriteType: primitive.WriteTypeBatchLog})
			if waitHeld(3) {
				mu.Lock()
				h2 := held[2]
				mu.Unlock()
				if bytes.Equal(h2.RawBody, h0.RawBody) {
					tok = "same"
				} else if bytes.Equal(h2.RawBody, h1.RawBody) {
					tok = "retry-carries-another-request"
				} else {
					tok = "retry-body-differs"
				}
			}
			_ = h1.Conn.Send(h1.Header.Version, h1.Header.StreamId, &message.VoidResult{})
		}
		rtok := "same"
		for i := 0; i < 2; i++ {
			if _, err := cl.Recv(2 * time.Second); err != nil {
				rtok = "retry-unanswered"
			}
		}
		res = append(res, tok+"/"+rtok)
	}
	if g, _ := strconv.Atoi(par["G"]); mainOK && g > 0 {
		mu.Lock()
		holding, bursting = false, true
		mu.Unlock()
		go func() {
			for i := 1; i <= g; i++ {
				if cl.Send(int16(i), &message.Query{Query: fmt.Sprintf("SELECT v FROM ks.burst WHERE k = %d", i), Options: &message.QueryOptions{Consistency: primitive.ConsistencyLevelOne}}) != nil {
					return
				}
			}
		}()
		time.Sleep(300 * time.Millisecond) // let the answers pile up before the first one is read
		seen, differs := map[int16][]byte{}, 0
		for len(seen) < g {
			reply, err := cl.Recv(3 * time.Second)
			if err != nil || reply.Header == nil {
				break
			}
			if _, dup := seen[reply.Header.StreamId]; dup {
				differs++
			}
			seen[reply.Header.StreamId] = reply.RawBody
		}
		time.Sleep(50 * time.Millisecond) // the backend notes what it wrote after writing it
		for st, body := range seen {
			mu.Lock()
			rq := burstReq[int(st)]
			mu.Unlock()
			if rq == nil || len(rq.Sent()) < 9 || !bytes.Equal(body, rq.Sent()[9:]) {
				differs++
				if os.Getenv("VH_DEBUG") != "" && differs < 4 {
					if rq == nil {
						fmt.Fprintf(os.Stderr, "burst %d: no request at the backend\n", st)
					} else {
						fmt.Fprintf(os.Stderr, "burst %d: reply %d bytes %x.. backend sent %d bytes %x..\n", st, len(body), body[:min(len(body), 24)], len(rq.Sent()), rq.Sent()[:min(len(rq.Sent()), 33)])
					}
				}
			}
		}
		switch {
		case len(seen) < g:
			res = append(res, fmt.Sprintf("same/burst-lost-%d-of-%d", g-len(seen), g))
		case differs > 0:
			res = append(res, fmt.Sprintf("same/burst-differs-%d", differs))
		default:
			res = append(res, "same/same")
		}
	}
	return strings.Join(res, " ")
}

// normMsg removes representation differences that carry no meaning (nil vs empty collections)
func normMsg(m message.Message) string {
	s := fmt.Sprintf("%#v", m)
	switch x := m.(type) {
	case *message.Query:
		s = fmt.Sprintf("Q %q %s", x.Query, normOpts(x.Options))
	case *message.Execute:
		s = fmt.Sprintf("E %x %x %s", x.QueryId, x.ResultMetadataId, normOpts(x.Options))
	case *message.Batch:
		var ch []string
		for _, c := range x.Children {
			var vs []string
			for _, v := range c.Values {
				vs = append(vs, fmt.Sprintf("%d:%x", v.Type, v.Contents))
			}
			ch = append(ch, fmt.Sprintf("%q/%x/%s", c.Query, c.Id, strings.Join(vs, ",")))
		}
		s = fmt.Sprintf("B %d %d [%s] sc=%v ts=%v ks=%q now=%v", x.Type, x.Consistency, strings.Join(ch, ";"), derefC(x.SerialConsistency), deref64(x.DefaultTimestamp), x.Keyspace, deref32(x.NowInSeconds))
	}
	return s
}

func derefC(p *primitive.ConsistencyLevel) string {
	if p == nil {
		return "-"
	}
	return fmt.Sprint(*p)
}
func deref64(p *int64) string {
	if p == nil {
		return "-"
	}
	return fmt.Sprint(*p)
}
func deref32(p *int32) string {
	if p == nil {
		return "-"
	}
	return fmt.Sprint(*p)
}

func normOpts(o *message.QueryOptions) string {
	var vs []string
	for _, v := range o.PositionalValues {
		vs = append(vs, fmt.Sprintf("%d:%x", v.Type, v.Contents))
	}
	var names []string
	for k := range o.NamedValues {
		names = append(names, k)
	}
	sort.Strings(names)
	for _, k := range names {
		vs = append(vs, fmt.Sprintf("%s=%d:%x", k, o.NamedValues[k].Type, o.NamedValues[k].Contents))
	}
	cp := "-"
	if o.ContinuousPagingOptions != nil {
		cp = fmt.Sprintf("%d/%d/%d", o.ContinuousPagingOptions.MaxPages, o.ContinuousPagingOptions.PagesPerSecond, o.ContinuousPagingOptions.NextPages)
	}
	return fmt.Sprintf("c=%d [%s] skip=%v ps=%d pg=%x sc=%s ts=%s ks=%q now=%s cp=%s", o.Consistency, strings.Join(vs, ","), o.SkipMetadata, o.PageSize, o.PagingState,
		derefC(o.SerialConsistency), deref64(o.DefaultTimestamp), o.Keyspace, deref32(o.NowInSeconds), cp)
}

func genBytes(e *emitter, r *rng.R, n int, tier string) {
	var ops []string
	defer func() { e.emitAll(ops, 12) }()
	versions := []int{3, 4, 5, 65, 66}
	comps := []string{"-", "lz4", "snappy"}
	unsup := []string{"-", "-", "0", "1", "8,9", "0,1,2,3,4,5,6,7,8,9,10", "4,6", "10"}
	// a burst of pipelined requests whose answers pile up before the client reads any of them
	ops = append(ops, "V:4 Z:- U:- R:6 S:11 N:3 G:2000", "V:5 Z:lz4 U:1 R:6 S:12 N:3 G:1900", "V:3 Z:snappy U:- R:6 S:13 N:3 G:1900")
	for i := 0; i < n; i++ {
		rr := r.Fork(uint64(i))
		ops = append(ops, fmt.Sprintf("V:%d Z:%s U:%s R:%d S:%d N:%d", versions[rr.Intn(5)], comps[rr.Intn(3)], unsup[rr.Intn(len(unsup))], []int{6, 1, 4, 10, 0, 0}[rr.Intn(6)], rr.Intn(1<<30), 6+rr.Intn(6)))
	}
}

var _ = hex.EncodeToString
