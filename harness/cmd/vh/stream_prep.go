package main

import (
	"fmt"
	"sort"
	"strconv"
	"strings"
	"sync"
	"time"

	"github.com/datastax/cql-proxy/proxy"
	"github.com/datastax/cql-proxy/proxycore"
	"github.com/datastax/go-cassandra-native-protocol/message"
	"github.com/datastax/go-cassandra-native-protocol/primitive"
	"verifharness/internal/e2e"
	"verifharness/internal/fakecass"
	"verifharness/internal/rng"
)

// prep: prepared statements across hosts. Backends behave like Cassandra nodes: a node executes an id only
// if a PREPARE for it reached that node (since its last restart), otherwise it answers UNPREPARED.
// op:   H:<hosts> Z:<compression|-> then actions
//         p<k>           client PREPAREs statement k (idempotent text) through the proxy
//         e<k>           client EXECUTEs statement k
//         b<k>           client sends a BATCH with statement k as a prepared child
//         f<h>           node h restarts (forgets its prepared statements; connections stay)
//         x<h>:<err|inv|drop|hang> the next PREPARE reaching node h fails that way (server error / INVALID / connection lost /
//                        never answered, the node being removed from the cluster 150 ms later)
//       statements 1, 2 are idempotent, 3, 4 are not (now())
//         P<k> E<k> B<k> the same from a second client connection that has switched to another keyspace (another session)
//         a              a new node joins (delivered to the proxy as the Add event a topology refresh produces)
// real: one token per client action: ok | prepared | unprepared | err | proxyerr | none ; then reprep=<hosts>

func init() { streams["prep"] = stream{gen: genPrep, run: runPrep} }

func stmtK(k int) string {
	if k >= 3 { // not idempotent
		return fmt.Sprintf("INSERT INTO ks.t (k, v, w) VALUES (%d, ?, now())", k)
	}
	return fmt.Sprintf("INSERT INTO ks.t (k, v) VALUES (%d, ?)", k)
}

func runPrep(op string) (out string) {
	defer func() {
		if p := recover(); p != nil {
			out = fmt.Sprintf("panic:%v", p)
		}
	}()
	hosts, comp := 2, ""
	var acts []string
	for _, t := range strings.Fields(op) {
		switch {
		case strings.HasPrefix(t, "H:"):
			hosts, _ = strconv.Atoi(t[2:])
		case strings.HasPrefix(t, "Z:"):
			if t[2:] != "-" {
				comp = t[2:]
			}
		default:
			acts = append(acts, t)
		}
	}
	env, err := e2e.Start(e2e.Options{Hosts: hosts, NumConns: 1, ReconnectBase: 30 * time.Second, ReconnectMax: 30 * time.Second})
	if err != nil {
		return "env-error:" + err.Error()
	}
	defer env.Close()
	var mu sync.Mutex
	known := map[string]map[string]bool{} // node ip -> prepared ids
	failNext := map[string]string{}
	var reprep []string
	clientPrepares := 0
	hostName := func(ip string) string {
		ips := append([]string{}, env.IPs...)
		sort.Strings(ips)
		for i, x := range ips {
			if x == ip {
				return fmt.Sprintf("h%d", i)
			}
		}
		return "h?"
	}
	env.Cluster.Handler = func(rq *fakecass.Request) fakecass.Response {
		mu.Lock()
		defer mu.Unlock()
		if known[rq.Node] == nil {
			known[rq.Node] = map[string]bool{}
		}
		if rq.Frame == nil {
			return fakecass.Response{Kind: fakecass.RespMsg, Msg: &message.ProtocolError{ErrorMessage: "undecodable"}}
		}
		switch m := rq.Frame.Body.Message.(type) {
		case *message.Prepare:
			if clientPrepares == 0 { // not an attempt of the client's own PREPARE: the proxy is re-preparing
				reprep = append(reprep, hostName(rq.Node))
			}
			if f, ok := failNext[rq.Node]; ok {
				delete(failNext, rq.Node)
				if f == "drop" {
					return fakecass.Response{Kind: fakecass.RespClose}
				}
				if f == "hang" {
					// the PREPARE is never answered, and a little later the node is taken out of the cluster: the proxy
					// closes its connections to it itself
					node := rq.Node
					go func() {
						time.Sleep(150 * time.Millisecond)
						proxy.VerifDeliverClusterEvent(env.Proxy, &proxycore.RemoveEvent{Host: &proxycore.Host{
							Endpoint: proxycore.NewEndpoint(fmt.Sprintf("%s:%d", node, env.Cluster.Port))}})
					}()
					return fakecass.Response{Kind: fakecass.RespSilent}
				}
				if f == "inv" {
					return fakecass.Response{Kind: fakecass.RespMsg, Msg: &message.Invalid{ErrorMessage: "prepare refused"}}
				}
				return fakecass.Response{Kind: fakecass.RespMsg, Msg: &message.ServerError{ErrorMessage: "prepare failed"}}
			}
			id := pid(m.Query)
			known[rq.Node][string(id)] = true
			return fakecass.Response{Kind: fakecass.RespMsg, Msg: &message.PreparedResult{PreparedQueryId: id}}
		case *message.Execute:
			if !known[rq.Node][string(m.QueryId)] {
				return fakecass.Response{Kind: fakecass.RespMsg, Msg: &message.Unprepared{ErrorMessage: "unprepared", Id: m.QueryId}}
			}
			return fakecass.Response{Kind: fakecass.RespMsg, Msg: &message.VoidResult{}}
		case *message.Batch:
			for _, c := range m.Children {
				if c.Id != nil && !known[rq.Node][string(c.Id)] {
					return fakecass.Response{Kind: fakecass.RespMsg, Msg: &message.Unprepared{ErrorMessage: "unprepared", Id: c.Id}}
				}
			}
			return fakecass.Response{Kind: fakecass.RespMsg, Msg: &message.VoidResult{}}
		}
		return fakecass.Response{Kind: fakecass.RespMsg, Msg: &message.VoidResult{}}
	}
	cl, err := env.Dial(primitive.ProtocolVersion4, comp)
	if err != nil {
		return "dial-error:" + err.Error()
	}
	defer cl.Close()
	opts := &message.QueryOptions{Consistency: primitive.ConsistencyLevelOne, PositionalValues: []*primitive.Value{primitive.NewValue([]byte{0, 0, 0, 1})}}
	var res []string
	stream := int16(0)
	// P / E / B: the same from a second client whose connection uses another keyspace, i.e. another backend session
	var cl2 *e2e.Client
	second := func() *e2e.Client {
		if cl2 == nil {
			c, err := env.Dial(primitive.ProtocolVersion4, comp)
			if err != nil {
				return nil
			}
			_ = c.Send(1, &message.Query{Query: "USE ks2", Options: &message.QueryOptions{Consistency: primitive.ConsistencyLevelOne}})
			_, _ = c.Recv(3 * time.Second)
			cl2 = c
		}
		return cl2
	}
	defer func() {
		if cl2 != nil {
			cl2.Close()
		}
	}()
	for _, a := range acts {
		var msg message.Message
		sender := cl
		if a[0] == 'P' || a[0] == 'E' || a[0] == 'B' {
			if sender = second(); sender == nil {
				return "dial-error:second-client"
			}
			a = strings.ToLower(a[:1]) + a[1:]
		}
		switch a[0] {
		case 'p':
			k, _ := strconv.Atoi(a[1:])
			mu.Lock()
			clientPrepares++
			mu.Unlock()
			msg = &message.Prepare{Query: stmtK(k)}
		case 'e':
			k, _ := strconv.Atoi(a[1:])
			msg = &message.Execute{QueryId: pid(stmtK(k)), Options: opts}
		case 'b':
			k, _ := strconv.Atoi(a[1:])
			msg = &message.Batch{Type: primitive.BatchTypeLogged, Consistency: primitive.ConsistencyLevelOne,
				Children: []*message.BatchChild{{Id: pid(stmtK(k)), Values: []*primitive.Value{primitive.NewValue([]byte{0, 0, 0, 1})}}}}
		case 'f':
			h, _ := strconv.Atoi(a[1:])
			ips := append([]string{}, env.IPs...)
			sort.Strings(ips)
			if h < len(ips) {
				mu.Lock()
				known[ips[h]] = map[string]bool{}
				mu.Unlock()
			}
			continue
		case 'x':
			p := strings.Split(a[1:], ":")
			h, _ := strconv.Atoi(p[0])
			ips := append([]string{}, env.IPs...)
			sort.Strings(ips)
			if h < len(ips) {
				mu.Lock()
				failNext[ips[h]] = p[1]
				mu.Unlock()
			}
			continue
		case 'a':
			ip := env.NextIP()
			if _, err := env.Cluster.AddNode(ip, "dc1"); err != nil {
				return "addnode-error"
			}
			proxy.VerifDeliverClusterEvent(env.Proxy, &proxycore.AddEvent{Host: &proxycore.Host{
				Endpoint: proxycore.NewEndpoint(fmt.Sprintf("%s:%d", ip, env.Cluster.Port)), DC: "dc1"}})
			time.Sleep(40 * time.Millisecond) // the new pool connects asynchronously
			continue
		default:
			continue
		}
		stream++
		if sender.Send(stream+100, msg) != nil {
			res = append(res, "closed")
			continue
		}
		r, err := sender.Recv(2 * time.Second)
		mu.Lock()
		clientPrepares = 0
		mu.Unlock()
		switch {
		case err != nil:
			res = append(res, "none")
		case r.Frame == nil:
			res = append(res, "undecodable")
		default:
			switch m := r.Frame.Body.Message.(type) {
			case *message.Unprepared:
				res = append(res, "unprepared")
			case message.Error:
				if strings.HasPrefix(m.GetErrorMessage(), "Proxy ") {
					res = append(res, "proxyerr")
				} else {
					res = append(res, "err")
				}
			case *message.PreparedResult:
				res = append(res, "prepared")
			default:
				res = append(res, "ok")
			}
		}
	}
	mu.Lock()
	defer mu.Unlock()
	return strings.Join(res, " ") + " reprep=" + strings.Join(reprep, ",")
}

func genPrep(e *emitter, r *rng.R, n int, tier string) {
	ops := []string{
		"H:3 Z:- p1 e1 e1 e1 e1",
		"H:3 Z:- p1 E1 E1 E1 E1 e1",
		// the re-PREPARE is never answered and the node is then removed (the proxy closes the connection itself); last action of a case
		"H:3 Z:- p1 f0 f1 f2 x0:hang x1:hang x2:hang e1",
		"H:3 Z:- p1 f0 f1 f2 x0:hang x1:hang e1",
		"H:3 Z:- p1 e1 f0 f1 f2 x1:hang x2:hang e1",
		"H:2 Z:lz4 p1 f0 f1 x0:hang x1:hang b1",
		"H:2 Z:- p3 f0 f1 x0:hang x1:hang e3",
		"H:3 Z:lz4 p1 f0 f1 f2 E1 E1 E1 B1 P2 e2 e2 e2",
		"H:3 Z:lz4 p1 e1 e1 e1",
		"H:3 Z:snappy p1 e1 e1 e1",
		"H:2 Z:- p1 a e1 e1 e1 e1",
		"H:2 Z:- p1 e1 e1 f0 f1 e1 e1 b1",
		"H:3 Z:- p1 x1:err e1 e1 e1 x2:drop e1 e1",
		"H:3 Z:- p1 x1:inv e1 e1 e1 p3 x2:err e3 e3 e3 x0:inv e3 e3 e3 b3",
		"H:2 Z:- p3 f0 f1 x0:drop e3 e3 e3 x1:inv p4 p4",
	}
	defer func() { e.emitAll(ops, 12) }()
	for i := 0; i < n; i++ {
		rr := r.Fork(uint64(i))
		h := 1 + rr.Intn(3)
		parts := []string{fmt.Sprintf("H:%d", h), "Z:" + rr.Pick([]string{"-", "-", "lz4", "snappy"})}
		added := 0
		prepared := map[int]bool{}
		// a case either has a second session or nodes that join / connections that are dropped: the harness delivers a
		// joining node to the sessions that exist, and a dropped connection belongs to one session only
		two := rr.Chance(1, 3)
		pick := func(lo, up string) string {
			if two && rr.Chance(1, 3) {
				return up
			}
			return lo
		}
		for j := 0; j < 4+rr.Intn(10); j++ {
			k := 1 + rr.Intn(2)
			if rr.Intn(3) == 0 {
				k += 2
			}
			other := func(k int) int { return (k-1)^1 + 1 } // the other statement of the same kind
			switch c := rr.Intn(20); {
			case c < 3 || len(prepared) == 0:
				parts = append(parts, fmt.Sprintf("p%d", k))
				prepared[k] = true
			case c < 12:
				if !prepared[k] {
					k = other(k)
				}
				parts = append(parts, fmt.Sprintf("%s%d", pick("e", "E"), k))
			case c < 14:
				if !prepared[k] {
					k = other(k)
				}
				parts = append(parts, fmt.Sprintf("%s%d", pick("b", "B"), k))
			case c < 16:
				parts = append(parts, fmt.Sprintf("f%d", rr.Intn(h+added)))
			case c < 18:
				kinds := []string{"err", "drop", "inv"}
				if two {
					kinds = []string{"err", "inv"}
				}
				parts = append(parts, fmt.Sprintf("x%d:%s", rr.Intn(h+added), rr.Pick(kinds)))
			default:
				if added < 1 && !two {
					parts = append(parts, "a")
					added++
				}
			}
		}
		ops = append(ops, strings.Join(parts, " "))
	}
}
