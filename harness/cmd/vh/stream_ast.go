package main

import (
	"encoding/hex"
	"fmt"
	"strings"

	"github.com/datastax/cql-proxy/parser"
	"verifharness/internal/rng"
)

// ast: ties the term grammar of lean/CqlVerif/Model/CqlAst.lean to the code. A random syntax tree is written out
// twice by this file: as a prefix encoding the Lean driver reads back into a `Term`, and as CQL text. The real
// scanner runs over the text (the driver compares its tokens with `Term.render`), and the real classifier runs over
// `INSERT INTO <table> (c) VALUES (<text>)` (the driver compares the verdict with the model's and evaluates the
// grammar theorem's claim on it: verdict idempotent => the tree holds no now() / uuid() call).
//
// op:   <prefix encoding …> B:<hex of the table name> X:<hex of the term's text>
// real: toks=<kind:idhex,…> idem=<1|0|1e|0e|panic> upd=<the same for UPDATE <table> SET c = <text> WHERE k = 1> whr=<… for the term inside a WHERE clause> bat=<… inside the second child of a batch>

func init() { streams["ast"] = stream{gen: genAst, run: runAst} }

func runAst(op string) (out string) {
	defer func() {
		if p := recover(); p != nil {
			out = fmt.Sprintf("panic:%v", p)
		}
	}()
	text, table := "", "t"
	for _, t := range strings.Fields(op) {
		if strings.HasPrefix(t, "X:") {
			b, err := hex.DecodeString(t[2:])
			if err != nil {
				return "bad-op"
			}
			text = string(b)
		}
		if strings.HasPrefix(t, "B:") {
			b, err := hex.DecodeString(t[2:])
			if err != nil {
				return "bad-op"
			}
			table = string(b)
		}
	}
	var toks []string
	for _, t := range parser.VerifLex(text) {
		if t.Kind == 1 { // tkEOF
			break
		}
		toks = append(toks, fmt.Sprintf("%d:%s", t.Kind, hex.EncodeToString([]byte(t.ID))))
	}
	return "toks=" + strings.Join(toks, ",") + " idem=" + idemOne("INSERT INTO "+table+" (c) VALUES ("+text+")") +
		" upd=" + idemOne("UPDATE "+table+" SET c = "+text+" WHERE k = 1") +
		" whr=" + idemOne("UPDATE "+table+" SET c = ? WHERE k = "+text+" AND j IN (1, "+text+")") +
		" del=" + idemOne("DELETE FROM "+table+" WHERE k >= "+text) +
		" bat=" + idemOne("BEGIN BATCH INSERT INTO "+table+" (c) VALUES (1) USING TTL 5; INSERT INTO "+table+" (c) VALUES ("+text+") APPLY BATCH")
}

var astIdents = []string{"k", "v", "col1", "f", "ks", "now", "NOW", "NoW", "uuid", "UUID", "system", "SYSTEM", "System", "frozen", "list", "map", "int", "text",
	"json", "values", "ttl", "\"Q\"", "\"now\"", "\"NOW\"", "\"system\"", "\"System\"", "\"uuid\"", "minTimeuuid", "toJson"}

var astPrims = []string{"1.5", "true", "null", "'a'", "0xCAFE", "123e4567-e89b-12d3-a456-426614174000", "1h30m", "NaN", "Infinity"}
var astPrimAlts = [][]string{{"-0.25e10", "3.0"}, {"FALSE", "True"}, {"NULL"}, {"'it''s'", "''", "'now()'"}, {"0x00"}, {"00000000-0000-0000-0000-000000000000"}, {"P1Y2M", "2mo"}, {"nan"}, {"infinity", "-Infinity"}}

// genTerm returns (prefix encoding, text)
func genAstTerm(r *rng.R, depth int) ([]string, string) {
	hx := func(s string) string { return hex.EncodeToString([]byte(s)) }
	c := r.Intn(22)
	if depth <= 0 && c >= 9 {
		c = r.Intn(9)
	}
	seq := func(n int) ([]string, []string) {
		var enc, texts []string
		for i := 0; i < n; i++ {
			e, t := genAstTerm(r, depth-1)
			enc = append(enc, e...)
			texts = append(texts, t)
		}
		return enc, texts
	}
	sep := func() string { return r.Pick([]string{", ", ",", " , ", ",\n"}) }
	join := func(ts []string) string {
		s := ""
		for i, t := range ts {
			if i > 0 {
				s += sep()
			}
			s += t
		}
		return s
	}
	switch {
	case c < 3:
		return []string{"I"}, r.Pick([]string{"1", "0", "-5", "42", "9223372036854775807"})
	case c < 6:
		p := r.Intn(len(astPrims))
		t := astPrims[p]
		if r.Chance(1, 2) {
			t = r.Pick(astPrimAlts[p])
			if strings.HasPrefix(t, "-") && p != 0 { // "-Infinity" is two tokens for some scanners: keep to single-token spellings
				t = astPrims[p]
			}
		}
		return []string{fmt.Sprintf("P%d", p)}, t
	case c < 7:
		return []string{"Q"}, "?"
	case c < 9:
		n := r.Pick(astIdents)
		return []string{"N:" + hx(n)}, ":" + n
	case c < 11:
		n := r.Intn(4)
		e, ts := seq(n)
		return append([]string{fmt.Sprintf("L:%d", n)}, e...), "[" + join(ts) + "]"
	case c < 13:
		n := r.Intn(4)
		e, ts := seq(n)
		return append([]string{fmt.Sprintf("S:%d", n)}, e...), "{" + join(ts) + "}"
	case c < 15:
		n := r.Intn(3)
		e, ts := seq(2 * n)
		var kv []string
		for i := 0; i < n; i++ {
			kv = append(kv, ts[2*i]+r.Pick([]string{": ", ":", " : "})+ts[2*i+1])
		}
		return append([]string{fmt.Sprintf("M:%d", n)}, e...), "{" + join(kv) + "}"
	case c < 17:
		n := 1 + r.Intn(3)
		enc := []string{fmt.Sprintf("U:%d", n)}
		var fs []string
		for i := 0; i < n; i++ {
			name := r.Pick(astIdents)
			e, t := genAstTerm(r, depth-1)
			enc = append(append(enc, "F:"+hx(name)), e...)
			fs = append(fs, name+r.Pick([]string{": ", ":", " : "})+t)
		}
		return enc, "{" + join(fs) + "}"
	case c < 19:
		n := r.Intn(4)
		e, ts := seq(n)
		return append([]string{fmt.Sprintf("T:%d", n)}, e...), "(" + join(ts) + ")"
	case c < 20:
		ty := r.Pick(astIdents)
		np := r.Intn(3)
		var ps, phx []string
		for i := 0; i < np; i++ {
			p := r.Pick(astIdents)
			ps = append(ps, p)
			phx = append(phx, hx(p))
		}
		e, t := genAstTerm(r, depth-1)
		tyText, penc := ty, "-"
		if np > 0 {
			tyText = ty + "<" + strings.Join(ps, ", ") + ">"
			penc = strings.Join(phx, ",")
		}
		return append([]string{"C:" + hx(ty) + ":" + penc}, e...), "(" + tyText + ")" + r.Pick([]string{" ", ""}) + t
	default:
		name := r.Pick(astIdents)
		if r.Chance(1, 3) {
			name = r.Pick([]string{"now", "uuid", "NOW", "Uuid", "\"now\"", "\"uuid\""})
		}
		ks, ksEnc := "", "-"
		if r.Chance(1, 3) {
			ks = r.Pick([]string{"system", "SYSTEM", "ks", "\"system\"", "\"System\"", "System"})
			ksEnc = hx(ks)
		}
		n := r.Intn(3)
		enc := []string{fmt.Sprintf("K:%s:%s:%d", ksEnc, hx(name), n)}
		var args []string
		for i := 0; i < n; i++ {
			if r.Chance(1, 3) {
				col := r.Pick(astIdents)
				enc = append(enc, "A:"+hx(col))
				args = append(args, col)
			} else {
				e, t := genAstTerm(r, depth-1)
				enc = append(enc, e...)
				args = append(args, t)
			}
		}
		text := name
		if ks != "" {
			text = ks + "." + name
		}
		return enc, text + r.Pick([]string{"(", " ("}) + join(args) + ")"
	}
}

func genAst(e *emitter, r *rng.R, n int, tier string) {
	hx := func(s string) string { return hex.EncodeToString([]byte(s)) }
	corpus := [][2]string{
		{"S:1 K:" + hx("system") + ":" + hx("uuid") + ":0", "{system.uuid()}"},
		{"S:2 K:-:" + hx("now") + ":0 I", "{now(), 1}"},
		{"U:1 F:" + hx("f") + " N:" + hx("x"), "{f: :x}"},
		{"T:2 K:-:" + hx("now") + ":0 I", "(now(), 1)"},
		{"M:1 K:" + hx("ks") + ":" + hx("f") + ":1 A:" + hx("c") + " N:" + hx("x"), "{ks.f(c): :x}"},
		{"C:" + hx("frozen") + ":" + hx("a") + "," + hx("b") + " K:-:" + hx("UUID") + ":0", "(frozen<a, b>) UUID()"},
	}
	for _, c := range corpus {
		e.emit(c[0] + " B:" + hx("t") + " X:" + hx(c[1]))
	}
	for i := 0; i < n; i++ {
		rr := r.Fork(uint64(i))
		enc, text := genAstTerm(rr, 1+rr.Intn(4))
		table := rr.Pick([]string{"t", "ks.t", "json", "ks.json", "\"T\"", "values", "system.t"})
		e.emit(strings.Join(enc, " ") + " B:" + hx(table) + " X:" + hx(text))
	}
}
