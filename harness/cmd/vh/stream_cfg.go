package main

import (
	"path/filepath"
	"bytes"
	"context"
	"fmt"
	"net"
	"os"
	"os/exec"
	"strings"
	"time"

	"github.com/datastax/cql-proxy/proxy"
	"github.com/datastax/go-cassandra-native-protocol/message"
	"github.com/datastax/go-cassandra-native-protocol/primitive"
	"verifharness/internal/e2e"
	"verifharness/internal/fakecass"
	"verifharness/internal/rng"
)

// cfg: the real start-up path - proxy.Run with flags, environment variables and a YAML file - against a fake
// backend, in a child process (kong's Fatalf exits the process).
// op:   B:<flag|env|yaml|none>      how the backend (contact points + port) is given
//       F:<option>=<value>  E:<option>=<value>  Y:<option>=<value>    an option as flag / environment variable / YAML
//         (lists comma separated; option names as in --help)
//       P:<addr|dc|tok+tok;...>     peers in the YAML file ('-' = empty field)
//       X:badyaml                   the YAML file is not valid YAML ; X:yamltype  a value of the wrong type in it
// real: refused:<exit code> | started:ver=<version used towards the backend>,max=<highest version accepted from clients>[,ov=<c>]
//       ov: when unsupported write consistencies are configured, the consistency the backend sees for an INSERT sent with
//       the first of them

func init() {
	streams["cfg"] = stream{gen: genCfg, run: runCfgParent}
	commands["cfg-child"] = func(args []string) int {
		fmt.Println(runCfgChild(strings.Join(args, " ")))
		return 0
	}
}

func runCfgParent(op string) string {
	ctx, cancel := context.WithTimeout(context.Background(), 40*time.Second)
	defer cancel()
	cmd := exec.CommandContext(ctx, os.Args[0], append([]string{"cfg-child"}, strings.Fields(op)...)...)
	// the child's environment carries only what the case puts there
	var env []string
	for _, kv := range os.Environ() {
		k := strings.SplitN(kv, "=", 2)[0]
		switch k {
		case "PATH", "HOME", "TMPDIR", "GOMAXPROCS", "GORACE":
			env = append(env, kv)
		}
	}
	for _, t := range strings.Fields(op) {
		if strings.HasPrefix(t, "E:") {
			kv := strings.SplitN(t[2:], "=", 2)
			if len(kv) == 2 {
				env = append(env, strings.ToUpper(strings.ReplaceAll(kv[0], "-", "_"))+"="+kv[1])
			}
		}
	}
	cmd.Env = env
	var stdout, stderr bytes.Buffer
	cmd.Stdout, cmd.Stderr = &stdout, &stderr
	err := cmd.Run()
	out := strings.TrimSpace(stdout.String())
	if i := strings.LastIndex(out, "\n"); i >= 0 {
		out = out[i+1:]
	}
	if err != nil {
		if ee, ok := err.(*exec.ExitError); ok && out == "" {
			if strings.Contains(stderr.String(), "panic:") {
				return "crash:" + firstLine(stderr.String(), "panic:")
			}
			return fmt.Sprintf("refused:%d", ee.ExitCode())
		}
		if ctx.Err() != nil {
			return "timeout"
		}
	}
	if out == "" {
		return "no-output"
	}
	return out
}

func firstLine(s, prefix string) string {
	for _, l := range strings.Split(s, "\n") {
		if strings.HasPrefix(l, prefix) {
			return strings.ReplaceAll(strings.TrimSpace(l), " ", "_")
		}
	}
	return "?"
}

func runCfgChild(op string) string {
	subnet := 1 + os.Getpid()%250
	ip := fmt.Sprintf("127.%d.2.1", subnet)
	port, err := e2e.FreePort(ip)
	if err != nil {
		return "env-error"
	}
	cl := fakecass.NewCluster(port)
	cl.MaxVersion = primitive.ProtocolVersionDse2
	if _, err := cl.AddNode(ip, "dc1"); err != nil {
		return "env-error:" + err.Error()
	}
	cl.Handler = func(rq *fakecass.Request) fakecass.Response {
		return fakecass.Response{Kind: fakecass.RespMsg, Msg: &message.VoidResult{}}
	}
	bindPort, err := e2e.FreePort("127.0.0.1")
	if err != nil {
		return "env-error"
	}
	bind := fmt.Sprintf("127.0.0.1:%d", bindPort)
	args := []string{"--bind", bind}
	var yaml []string
	needYaml := false
	for _, t := range strings.Fields(op) {
		kv := strings.SplitN(t[2:], "=", 2)
		switch t[:2] {
		case "B:":
			switch t[2:] {
			case "flag":
				args = append(args, "--contact-points", ip, "--port", fmt.Sprint(port))
			case "env":
				os.Setenv("CONTACT_POINTS", ip)
				os.Setenv("PORT", fmt.Sprint(port))
			case "yaml":
				yaml = append(yaml, fmt.Sprintf("contact-points: [%s]", ip), fmt.Sprintf("port: %d", port))
				needYaml = true
			}
		case "F:":
			if len(kv) == 2 {
				args = append(args, "--"+kv[0], kv[1])
			}
		case "Y:":
			if len(kv) == 2 {
				needYaml = true
				switch kv[0] {
				case "tokens", "unsupported-write-consistencies":
					yaml = append(yaml, fmt.Sprintf("%s: [%s]", kv[0], kv[1]))
				default:
					yaml = append(yaml, fmt.Sprintf("%s: %s", kv[0], kv[1]))
				}
			}
		case "P:":
			needYaml = true
			yaml = append(yaml, "peers:")
			for _, p := range strings.Split(t[2:], ";") {
				f := strings.Split(p, "|")
				for len(f) < 3 {
					f = append(f, "-")
				}
				first := true
				item := func(k, v string) {
					pre := "    "
					if first {
						pre = "  - "
						first = false
					}
					yaml = append(yaml, pre+k+": "+v)
				}
				if f[0] != "-" {
					item("rpc-address", f[0])
				}
				if f[1] != "-" {
					item("data-center", f[1])
				}
				if f[2] != "-" {
					item("tokens", "["+strings.ReplaceAll(f[2], "+", ", ")+"]")
				}
				if first {
					item("data-center", "\"\"")
				}
			}
		case "X:":
			needYaml = true
			if t[2:] == "badyaml" {
				yaml = append(yaml, "num-conns: [1", "  : : :")
			} else {
				yaml = append(yaml, "num-conns: {a: b}")
			}
		}
	}
	if needYaml {
		f, err := os.CreateTemp("", "vhcfg*.yaml")
		if err != nil {
			return "env-error"
		}
		defer os.Remove(f.Name())
		_, _ = f.WriteString(strings.Join(yaml, "\n") + "\n")
		_ = f.Close()
		args = append(args, "--config", f.Name())
	}
	// the first unsupported consistency named anywhere (file over flag over environment), by its documented code
	firstUnsupported := -1
	for _, src := range []string{"E:", "F:", "Y:"} {
		for _, t := range strings.Fields(op) {
			if strings.HasPrefix(t, src+"unsupported-write-consistencies=") {
				first := strings.ToLower(strings.Split(strings.SplitN(t, "=", 2)[1], ",")[0])
				codes := map[string]int{"any": 0, "one": 1, "two": 2, "three": 3, "quorum": 4, "all": 5, "local_quorum": 6, "each_quorum": 7, "serial": 8, "local_serial": 9, "local_one": 10}
				if c, ok := codes[first]; ok {
					firstUnsupported = c
				}
			}
		}
	}
	ctx, cancel := context.WithCancel(context.Background())
	defer cancel()
	done := make(chan int, 1)
	go func() { done <- proxy.Run(ctx, args) }()
	deadline := time.Now().Add(4 * time.Second)
	for time.Now().Before(deadline) {
		select {
		case code := <-done:
			// the program itself (package main of /repo, built next to this binary) must refuse it too, with a
			// non-zero exit status: proxy.Run's return value is only what main() makes of it
			res := fmt.Sprintf("refused:%d", code)
			exe := filepath.Join(filepath.Dir(os.Args[0]), "cql-proxy")
			if _, err := os.Stat(exe); err == nil {
				ectx, ecancel := context.WithTimeout(context.Background(), 15*time.Second)
				cmd := exec.CommandContext(ectx, exe, args...)
				err := cmd.Run()
				ecode := 0
				if ee, ok := err.(*exec.ExitError); ok {
					ecode = ee.ExitCode()
				} else if err != nil {
					ecode = -2
				}
				if ectx.Err() != nil {
					res += ",exe=running"
				} else if ecode != code {
					res += fmt.Sprintf(",exe=%d", ecode)
				}
				ecancel()
			}
			return res
		default:
		}
		c, err := net.DialTimeout("tcp", bind, 100*time.Millisecond)
		if err == nil {
			_ = c.Close()
			// serving: which versions does it take from clients, and which one did it use towards the backend?
			max := 0
			for _, v := range []int{3, 4, 5, 65, 66} {
				// asked on a fresh connection, and on one that has already spoken an accepted version
				if cfgAccepts(bind, byte(v), false) || cfgAccepts(bind, byte(v), true) {
					max = v
				}
			}
			ver := 0
			for _, n := range cl.NodeIPs() {
				for _, bc := range cl.Node(n).Conns() {
					if int(bc.Version) > ver {
						ver = int(bc.Version)
					}
				}
			}
			res := fmt.Sprintf("started:ver=%d,max=%d", ver, max)
			if firstUnsupported >= 0 {
				cv := primitive.ProtocolVersion4
				if max < 4 {
					cv = primitive.ProtocolVersion(max)
				}
				res += ",ov=" + cfgOverrideSeen(bind, cl, uint16(firstUnsupported), cv)
			}
			return res
		}
		time.Sleep(20 * time.Millisecond)
	}
	return "neither-started-nor-refused"
}

// cfgOverrideSeen sends an INSERT with the given consistency through the running proxy and reports the consistency
// the backend received.
func cfgOverrideSeen(addr string, cl *fakecass.Cluster, cons uint16, v primitive.ProtocolVersion) string {
	c, err := e2e.DialRaw(addr)
	if err != nil {
		return "dial"
	}
	defer c.Close()
	c.Version = v
	if c.Send(1, &message.Startup{Options: map[string]string{"CQL_VERSION": "3.0.0"}}) != nil {
		return "write"
	}
	if _, err := c.Recv(2 * time.Second); err != nil {
		return "startup"
	}
	before := cl.LogLen()
	_ = c.Send(2, &message.Query{Query: "INSERT INTO ks.t (k) VALUES (1)", Options: &message.QueryOptions{Consistency: primitive.ConsistencyLevel(cons)}})
	if _, err := c.Recv(3 * time.Second); err != nil {
		return "unanswered"
	}
	log := cl.Log()
	for _, rq := range log[before:] {
		if rq.Frame != nil {
			if q, ok := rq.Frame.Body.Message.(*message.Query); ok {
				return fmt.Sprint(int(q.Options.Consistency))
			}
		}
	}
	return "not-forwarded"
}

func cfgAccepts(addr string, v byte, warm bool) bool {
	c, err := e2e.DialRaw(addr)
	if err != nil {
		return false
	}
	defer c.Close()
	if warm {
		// a v3 handshake first (v3 is accepted by every configuration that starts), then the version in question
		if c.WriteBytes(rawFrame(3, 5, 1, nil)) != nil {
			return false
		}
		if _, err := c.Recv(500 * time.Millisecond); err != nil {
			return false
		}
		c.Version = primitive.ProtocolVersion3
		if c.Send(2, &message.Startup{Options: map[string]string{"CQL_VERSION": "3.0.0"}}) != nil {
			return false
		}
		if _, err := c.Recv(500 * time.Millisecond); err != nil {
			return false
		}
	}
	if c.WriteBytes(rawFrame(v, 5, 1, nil)) != nil {
		return false
	}
	r, err := c.Recv(500 * time.Millisecond)
	if err != nil || r.Frame == nil {
		return false
	}
	_, ok := r.Frame.Body.Message.(*message.Supported)
	return ok
}

func genCfg(e *emitter, r *rng.R, n int, tier string) {
	var ops []string
	defer func() { e.emitAll(ops, 12) }()
	srcs := []string{"F", "E", "Y"}
	// each inconsistency of the property, through each source
	for _, s := range srcs {
		ops = append(ops,
			fmt.Sprintf("B:flag %s:heartbeat-interval=60s %s:idle-timeout=60s", s, s),
			fmt.Sprintf("B:flag %s:heartbeat-interval=61s", s),
			fmt.Sprintf("B:flag %s:heartbeat-interval=59s %s:idle-timeout=60s", s, s),
			fmt.Sprintf("B:flag %s:idle-timeout=30s", s),
			fmt.Sprintf("B:flag %s:idle-timeout=29s", s),
			fmt.Sprintf("B:flag %s:num-conns=0", s),
			fmt.Sprintf("B:flag %s:num-conns=-1", s),
			fmt.Sprintf("B:flag %s:num-conns=2", s),
			fmt.Sprintf("B:flag %s:protocol-version=v5", s),
			fmt.Sprintf("B:flag %s:protocol-version=v5 %s:max-protocol-version=v5", s, s),
			fmt.Sprintf("B:flag %s:protocol-version=DSEv2 %s:max-protocol-version=dsev1", s, s),
			fmt.Sprintf("B:flag %s:protocol-version=v3 %s:max-protocol-version=DSEv2", s, s),
			fmt.Sprintf("B:flag %s:protocol-version=v6", s),
			fmt.Sprintf("B:flag %s:max-protocol-version=four", s),
			fmt.Sprintf("B:flag %s:unsupported-write-consistencies=quorum,each_quorum %s:unsupported-write-consistency-override=Local_One", s, s),
			fmt.Sprintf("B:flag %s:unsupported-write-consistencies=quorum,most", s),
			fmt.Sprintf("B:flag %s:unsupported-write-consistency-override=LOCAL", s),
			fmt.Sprintf("B:flag %s:tokens=1,2 %s:rpc-address=127.0.0.1 P:127.0.0.2|-|-", s, s),
			fmt.Sprintf("B:flag %s:tokens=1,2 %s:rpc-address=127.0.0.1 P:127.0.0.2|-|5+6", s, s),
			fmt.Sprintf("B:flag %s:rpc-address=127.0.0.1 P:-|dc2|-", s),
			fmt.Sprintf("B:flag %s:tokens=1,2 %s:rpc-address=127.0.0.1 P:127.0.0.2|-|5;127.0.0.3|-|-", s, s),
			fmt.Sprintf("B:flag %s:tokens=1,2 %s:rpc-address=127.0.0.1 P:127.0.0.2|-|-;127.0.0.3|-|7;127.0.0.4|-|8", s, s),
			fmt.Sprintf("B:flag %s:tokens=1,2 %s:rpc-address=127.0.0.1 P:127.0.0.2|-|5;127.0.0.3|-|6", s, s),
		)
		for _, o := range []string{"any", "ANY", "one", "Two", "three", "quorum", "all", "local_quorum", "each_quorum", "serial", "local_serial", "LOCAL_ONE"} {
			if s != "E" { // the override has no environment variable
				ops = append(ops, fmt.Sprintf("B:flag %s:unsupported-write-consistencies=quorum,all %s:unsupported-write-consistency-override=%s", s, s, o))
			}
		}
		ops = append(ops, fmt.Sprintf("B:flag %s:unsupported-write-consistencies=each_quorum", s))
	}
	ops = append(ops, "B:none", "B:env", "B:yaml", "B:flag", "B:none Y:num-conns=2", "B:flag P:127.0.0.2|-|-", "B:flag F:rpc-address=127.0.0.1 P:127.0.0.2|dc2|-;127.0.0.1|-|-",
		"B:flag X:badyaml", "B:flag X:yamltype", "B:flag F:num-conns=3 X:badyaml", "B:yaml X:yamltype",
		// the file overrides the command line, the command line the environment
		"B:flag F:num-conns=0 Y:num-conns=1", "B:flag F:num-conns=1 Y:num-conns=0", "B:flag E:num-conns=0 F:num-conns=1", "B:flag E:num-conns=1 F:num-conns=0",
		"B:flag F:heartbeat-interval=90s Y:idle-timeout=120s", "B:flag E:idle-timeout=10s Y:heartbeat-interval=5s", "B:flag F:protocol-version=v5 Y:max-protocol-version=v5")
	durs := []string{"0s", "1s", "29s", "30s", "31s", "59s", "60s", "61s", "2m", "500ms", "1h"}
	vers := []string{"v3", "v4", "v5", "DSEv1", "dsev2", "3", "4", "5", "65", "66", "V4", "v7", "", "four"}
	for i := 0; i < n; i++ {
		rr := r.Fork(uint64(i))
		parts := []string{"B:" + rr.Pick([]string{"flag", "flag", "flag", "env", "yaml", "none"})}
		opt := func(name, val string) {
			parts = append(parts, fmt.Sprintf("%s:%s=%s", srcs[rr.Intn(3)], name, val))
		}
		if rr.Intn(2) == 0 {
			opt("heartbeat-interval", rr.Pick(durs))
		}
		if rr.Intn(2) == 0 {
			opt("idle-timeout", rr.Pick(durs))
		}
		if rr.Intn(2) == 0 {
			opt("num-conns", rr.Pick([]string{"-1", "0", "1", "2", "1", "3"}))
		}
		if rr.Intn(2) == 0 {
			if v := rr.Pick(vers); v != "" {
				opt("protocol-version", v)
			}
		}
		if rr.Intn(2) == 0 {
			if v := rr.Pick(vers); v != "" {
				opt("max-protocol-version", v)
			}
		}
		if rr.Intn(6) == 0 {
			opt("unsupported-write-consistencies", rr.Pick([]string{"quorum", "ALL,Each_Quorum", "serial,bogus", "one"}))
		}
		if rr.Intn(5) == 0 {
			opt("rpc-address", rr.Pick([]string{"127.0.0.1", "127.0.0.9"}))
		}
		if rr.Intn(6) == 0 {
			opt("tokens", rr.Pick([]string{"1", "1,2,3"}))
		}
		if rr.Intn(4) == 0 {
			parts = append(parts, "P:"+rr.Pick([]string{"127.0.0.2|-|-", "127.0.0.2|dc2|7+8", "-|dc2|-", "127.0.0.2|-|-;127.0.0.3|-|9", "127.0.0.1|-|-;127.0.0.2|-|4"}))
		}
		ops = append(ops, strings.Join(parts, " "))
	}
}
