package main

import (
	"net"
	"sync/atomic"
	"bytes"
	"context"
	"encoding/binary"
	"encoding/hex"
	"fmt"
	"os"
	"os/exec"
	"strconv"
	"strings"
	"time"

	"github.com/datastax/go-cassandra-native-protocol/datatype"
	"github.com/datastax/go-cassandra-native-protocol/frame"
	"github.com/datastax/go-cassandra-native-protocol/message"
	"github.com/datastax/go-cassandra-native-protocol/primitive"
	"verifharness/internal/e2e"
	"verifharness/internal/fakecass"
	"verifharness/internal/rng"
)

// hostile: the real proxy (in a child process, so that a panic anywhere in it is observed as the death of
// the process) facing a hostile client and hostile backends, with a well-behaved canary client connected
// throughout.
// op:   M:<max version> then one attack
//         C:<hex>            the attacker's connection sends these bytes (several C: tokens = several writes)
//         Z:<n>              the attacker sends a well-formed QUERY whose text is n bytes long
//         T:<silent|partial|garbage>   the proxy serves its clients over TLS; the attacker connects and sends nothing / the first
//                            bytes of a TLS record / bytes that are not TLS, and stays connected
//         U:<ms>             the attacker sends USE for a keyspace whose USE the backend answers only after <ms> ms (0: never);
//                            while that is pending the canary must still be answered promptly
//         W:<n>              the attacker pipelines n forwarded queries with large answers, never reads one, and disconnects
//         H:<n>              the same, but the attacker stays connected (still not reading) while the canary is checked
//         B:<kind>[:<arg>]   the attacker sends well-formed requests; the backend answers them in a hostile way
//         L:<kind>           the backend answers the proxy's own system.local / system.peers queries badly and
//                            the control connection is dropped so that the proxy has to ask again
// real: att=<outcomes, comma separated>  canary=<ok|what went wrong>  [crash:<reason>]
//   outcomes for C:/Z:  one token per frame received (perr-version perr-compression perr supported ready routed
//   undecodable) then `closed` or `open`

func init() {
	streams["hostile"] = stream{gen: genHostile, run: runHostileParent}
	commands["hostile-child"] = func(args []string) int {
		fmt.Println(runHostileChild(strings.Join(args, " ")))
		return 0
	}
}

func runHostileParent(op string) string {
	ctx, cancel := context.WithTimeout(context.Background(), 60*time.Second)
	defer cancel()
	cmd := exec.CommandContext(ctx, os.Args[0], append([]string{"hostile-child"}, strings.Fields(op)...)...)
	cmd.Env = append(os.Environ(), "GOMEMLIMIT=2GiB")
	var stdout, stderr bytes.Buffer
	cmd.Stdout, cmd.Stderr = &stdout, &stderr
	err := cmd.Run()
	if err != nil {
		reason := "exit"
		for _, l := range strings.Split(stderr.String(), "\n") {
			if strings.HasPrefix(l, "panic:") || strings.HasPrefix(l, "fatal error:") {
				reason = strings.ReplaceAll(strings.TrimSpace(l), " ", "_")
				if len(reason) > 140 {
					reason = reason[:140]
				}
				break
			}
		}
		if ctx.Err() != nil {
			reason = "timeout"
		}
		return strings.TrimSpace(stdout.String() + " crash:" + reason)
	}
	return strings.TrimSpace(stdout.String())
}

const canaryQuery = "SELECT v FROM ks.canary"

// canaryCheck: a handled query and a forwarded idempotent query must both be answered correctly.
func canaryCheck(cl *e2e.Client, round int) string {
	base := int16(100 + round*10)
	if err := cl.Send(base, &message.Query{Query: "SELECT key FROM system.local", Options: &message.QueryOptions{Consistency: primitive.ConsistencyLevelOne}}); err != nil {
		return "write-failed"
	}
	r, err := cl.Recv(3 * time.Second)
	if err != nil {
		return "no-answer-handled"
	}
	if r.Frame == nil || r.Header.StreamId != base {
		return "bad-answer-handled"
	}
	rows, ok := r.Frame.Body.Message.(*message.RowsResult)
	if !ok || len(rows.Data) != 1 || string(rows.Data[0][0]) != "local" {
		return "wrong-answer-handled"
	}
	// forwarded: idempotent, so a backend connection the attack got closed is routed around; allow the pool a
	// moment to come back when every connection was hit
	for try := 0; try < 8; try++ {
		st := base + 1 + int16(try)
		if err := cl.Send(st, &message.Query{Query: canaryQuery, Options: &message.QueryOptions{Consistency: primitive.ConsistencyLevelOne}}); err != nil {
			return "write-failed"
		}
		r, err = cl.Recv(3 * time.Second)
		if err != nil {
			return "no-answer-forwarded"
		}
		if r.Frame == nil || r.Header.StreamId != st {
			return "bad-answer-forwarded"
		}
		if rows, ok := r.Frame.Body.Message.(*message.RowsResult); ok && len(rows.Data) == 1 && string(rows.Data[0][0]) == "canary" {
			return "ok"
		}
		time.Sleep(60 * time.Millisecond)
	}
	return "wrong-answer-forwarded"
}

func canaryRows() message.Message {
	cols := []*message.ColumnMetadata{{Keyspace: "ks", Table: "canary", Name: "v", Index: 0, Type: datatype.Varchar}}
	return &message.RowsResult{Metadata: &message.RowsMetadata{ColumnCount: 1, Columns: cols}, Data: message.RowSet{message.Row{[]byte("canary")}}}
}

func isCanary(rq *fakecass.Request) bool {
	return bytes.Contains(rq.RawBody, []byte(canaryQuery))
}

func runHostileChild(op string) (out string) {
	toks := strings.Fields(op)
	max := primitive.ProtocolVersion4
	var attack []string
	for _, t := range toks {
		if strings.HasPrefix(t, "M:") {
			n, _ := strconv.Atoi(t[2:])
			max = primitive.ProtocolVersion(n)
		} else {
			attack = append(attack, t)
		}
	}
	tlsAttack := len(attack) > 0 && strings.HasPrefix(attack[0], "T:")
	env, err := e2e.Start(e2e.Options{Hosts: 2, MaxVersion: max, Version: primitive.ProtocolVersion4, BackendMax: primitive.ProtocolVersionDse2, TLS: tlsAttack,
		ReconnectBase: 15 * time.Millisecond, ReconnectMax: 40 * time.Millisecond,
		HeartBeat: 120 * time.Millisecond, IdleTimeout: 500 * time.Millisecond}) // a backend that stops answering is detected by the idle timeout
	if err != nil {
		return "env-error:" + err.Error()
	}
	defer env.Close()
	var backendAttack func(rq *fakecass.Request) (fakecass.Response, bool)
	env.Cluster.Handler = func(rq *fakecass.Request) fakecass.Response {
		if isCanary(rq) {
			return fakecass.Response{Kind: fakecass.RespMsg, Msg: canaryRows()}
		}
		if bytes.Contains(rq.RawBody, []byte("attackbig")) {
			return fakecass.Response{Kind: fakecass.RespMsg, Msg: rowsWith(strings.Repeat("x", 8000))}
		}
		if backendAttack != nil {
			if r, ok := backendAttack(rq); ok {
				return r
			}
		}
		if rq.Header.OpCode == primitive.OpCodePrepare {
			return fakecass.Response{Kind: fakecass.RespMsg, Msg: &message.PreparedResult{PreparedQueryId: []byte("0123456789abcdef"), ResultMetadataId: []byte("0123456789abcdef")}}
		}
		return fakecass.Response{Kind: fakecass.RespMsg, Msg: &message.VoidResult{}}
	}
	cv := primitive.ProtocolVersion4
	if max < cv {
		cv = max
	}
	canary, err := env.Dial(cv, "")
	if err != nil {
		return "canary-dial-error"
	}
	defer canary.Close()
	if c := canaryCheck(canary, 0); c != "ok" {
		return "canary-before=" + c
	}
	var att []string
	switch {
	case len(attack) == 0:
	case tlsAttack:
		// the attacker holds its connection open across the canary checks that follow
		raw, derr := net.DialTimeout("tcp", env.Addr, 2*time.Second)
		if derr != nil {
			att = []string{"dial-error"}
			break
		}
		defer raw.Close()
		switch attack[0][2:] {
		case "partial":
			_, _ = raw.Write([]byte{0x16, 0x03, 0x01, 0x02})
		case "garbage":
			_, _ = raw.Write([]byte("GET / HTTP/1.0\r\n\r\n"))
		}
		time.Sleep(150 * time.Millisecond)
		att = []string{"held"}
	case strings.HasPrefix(attack[0], "U:"):
		ms, _ := strconv.Atoi(attack[0][2:])
		d := time.Duration(ms) * time.Millisecond
		if ms == 0 {
			d = time.Hour
		}
		env.Cluster.SetSlowKeyspace("slowks", d)
		acl, derr := env.Dial(cv, "")
		if derr != nil {
			att = []string{"dial-error"}
			break
		}
		defer acl.Close()
		_ = acl.Send(1, &message.Query{Query: "USE slowks", Options: &message.QueryOptions{Consistency: primitive.ConsistencyLevelOne}})
		time.Sleep(100 * time.Millisecond)
		t0 := time.Now()
		_ = canary.Send(90, &message.Query{Query: canaryQuery, Options: &message.QueryOptions{Consistency: primitive.ConsistencyLevelOne}})
		_, rerr := canary.Recv(3 * time.Second)
		if lat := time.Since(t0); rerr != nil || lat > 800*time.Millisecond {
			return fmt.Sprintf("att=use-pending canary=stalled-%dms", lat.Milliseconds())
		}
		att = []string{"use-pending"}
	case strings.HasPrefix(attack[0], "H:"):
		// the client that does not read stays connected while the canary is checked
		n, _ := strconv.Atoi(attack[0][2:])
		cl, derr := env.Dial(cv, "")
		if derr != nil {
			att = []string{"dial-error"}
			break
		}
		defer cl.Close()
		sent := 0
		for i := 0; i < n; i++ {
			b, err := cl.Encode(int16(i%30000+1), &message.Query{Query: "SELECT v FROM ks.attackbig", Options: &message.QueryOptions{Consistency: primitive.ConsistencyLevelOne}}, nil)
			if err != nil || cl.WriteBytes(b) != nil {
				break
			}
			sent++
		}
		time.Sleep(500 * time.Millisecond)
		att = []string{fmt.Sprintf("sent-%d", sent), "held"}
	case strings.HasPrefix(attack[0], "W:"):
		n, _ := strconv.Atoi(attack[0][2:])
		att = slowReaderAttack(env, cv, n)
	case strings.HasPrefix(attack[0], "C:") || strings.HasPrefix(attack[0], "Z:"):
		att = clientAttack(env, attack)
	case strings.HasPrefix(attack[0], "B:"):
		att = backendReplyAttack(env, cv, attack[0][2:], &backendAttack)
	case strings.HasPrefix(attack[0], "L:"):
		att = systemTableAttack(env, attack[0][2:])
	}
	c1 := canaryCheck(canary, 1)
	// a second canary connecting after the attack must be served too
	c2 := "ok"
	if late, err := env.Dial(cv, ""); err != nil {
		c2 = "late-dial-failed"
	} else {
		c2 = canaryCheck(late, 2)
		late.Close()
	}
	res := "ok"
	if c1 != "ok" {
		res = c1
	} else if c2 != "ok" {
		res = "late-" + c2
	}
	return "att=" + strings.Join(att, ",") + " canary=" + res
}

// slowReaderAttack: a client that asks for a lot and never reads, then goes away.
func slowReaderAttack(env *e2e.Env, v primitive.ProtocolVersion, n int) []string {
	cl, err := env.Dial(v, "")
	if err != nil {
		return []string{"dial-error"}
	}
	sent := 0
	for i := 0; i < n; i++ {
		b, err := cl.Encode(int16(i%30000+1), &message.Query{Query: "SELECT v FROM ks.attackbig", Options: &message.QueryOptions{Consistency: primitive.ConsistencyLevelOne}}, nil)
		if err != nil || cl.WriteBytes(b) != nil {
			break
		}
		sent++
	}
	time.Sleep(400 * time.Millisecond)
	cl.Close()
	time.Sleep(100 * time.Millisecond)
	return []string{fmt.Sprintf("sent-%d", sent)}
}

func clientAttack(env *e2e.Env, attack []string) []string {
	cl, err := e2e.DialRaw(env.Addr)
	if err != nil {
		return []string{"dial-error"}
	}
	defer cl.Close()
	lastV := byte(4)
	for _, a := range attack {
		var b []byte
		if strings.HasPrefix(a, "Z:") {
			n, _ := strconv.Atoi(a[2:])
			q := bytes.Repeat([]byte("a"), n)
			body := make([]byte, 4, n+8)
			binary.BigEndian.PutUint32(body, uint32(n))
			body = append(append(body, q...), 0, 1, 0)
			b = rawFrame(4, 7, 1, body)
		} else {
			b, _ = hex.DecodeString(a[2:])
		}
		if len(b) > 0 {
			lastV = b[0]
		}
		if cl.WriteBytes(b) != nil {
			break
		}
	}
	var got []string
	for len(got) < 64 {
		to := 220 * time.Millisecond
		if len(got) == 0 && strings.HasPrefix(attack[0], "Z:") {
			to = 8 * time.Second // megabytes have to cross the loopback first
		}
		r, err := cl.Recv(to)
		if err == e2e.ErrTimeout {
			got = append(got, "open")
			break
		}
		if err != nil {
			got = append(got, "closed")
			break
		}
		v := lastV
		if len(r.RawHeader) > 0 {
			v = r.RawHeader[0]
		}
		c := classify(r, v)
		if c == "error" || c == "result" {
			c = "routed"
		}
		got = append(got, c)
	}
	return got
}

// backendReplyAttack: the attacker's well-formed requests are answered by the backend in a hostile way.
func backendReplyAttack(env *e2e.Env, v primitive.ProtocolVersion, kind string, hook *func(rq *fakecass.Request) (fakecass.Response, bool)) []string {
	arg := ""
	if i := strings.IndexByte(kind, ':'); i >= 0 {
		kind, arg = kind[:i], kind[i+1:]
	}
	argN, _ := strconv.Atoi(arg)
	argB, _ := hex.DecodeString(arg)
	mk := func(rq *fakecass.Request, vbyte byte, flags byte, stream int16, opcode byte, body []byte) []byte {
		h := []byte{vbyte, flags, byte(stream >> 8), byte(stream), opcode, 0, 0, 0, 0}
		binary.BigEndian.PutUint32(h[5:], uint32(len(body)))
		return append(h, body...)
	}
	rv := func(rq *fakecass.Request) byte { return byte(rq.Header.Version) | 0x80 }
	errBody := func(code uint32, msg string) []byte {
		b := make([]byte, 4)
		binary.BigEndian.PutUint32(b, code)
		b = append(b, byte(len(msg)>>8), byte(len(msg)))
		return append(b, msg...)
	}
	*hook = func(rq *fakecass.Request) (fakecass.Response, bool) {
		s := rq.Header.StreamId
		raw := func(b []byte) (fakecass.Response, bool) { return fakecass.Response{Kind: fakecass.RespRaw, Raw: b}, true }
		switch kind {
		case "wrongstream":
			return raw(mk(rq, rv(rq), 0, s+int16(argN), 8, []byte{0, 0, 0, 1}))
		case "dup":
			one := mk(rq, rv(rq), 0, s, 8, []byte{0, 0, 0, 1})
			return raw(append(append([]byte{}, one...), one...))
		case "shorterr":
			full := errBody(0x1000, "unavailable")
			if argN > len(full) {
				argN = len(full)
			}
			return raw(mk(rq, rv(rq), 0, s, 0, full[:argN]))
		case "errbody":
			return raw(mk(rq, rv(rq), 0, s, 0, argB))
		case "errflags":
			return raw(mk(rq, rv(rq), byte(argN), s, 0, errBody(0x2500, "")))
		case "resultbody":
			return raw(mk(rq, rv(rq), 0, s, 8, argB))
		case "resultflags":
			return raw(mk(rq, rv(rq), byte(argN), s, 8, []byte{0, 0, 0, 1}))
		case "opcode":
			return raw(mk(rq, rv(rq), 0, s, byte(argN), []byte{0, 0, 0, 1}))
		case "reqdir":
			return raw(mk(rq, byte(rq.Header.Version), 0, s, byte(argN), []byte{0, 0, 0, 1}))
		case "version":
			return raw(mk(rq, byte(argN), 0, s, 8, []byte{0, 0, 0, 1}))
		case "neglen":
			b := mk(rq, rv(rq), 0, s, 8, nil)
			copy(b[5:], []byte{0xff, 0xff, 0xff, 0xff})
			return raw(b)
		case "truncated":
			b := mk(rq, rv(rq), 0, s, 8, []byte{0, 0, 0, 1})
			return fakecass.Response{Kind: fakecass.RespRaw, Raw: b[:argN%len(b)], Then: func() { rq.Conn.Close() }}, true
		case "event":
			// an unsolicited EVENT with this body on the data connection, then the real answer
			ev := mk(rq, rv(rq), 0, -1, 12, argB)
			ans := mk(rq, rv(rq), 0, s, 8, []byte{0, 0, 0, 1})
			return raw(append(ev, ans...))
		case "unsolicited":
			// an answer nobody asked for (free stream id), then the real answer
			x := mk(rq, rv(rq), 0, int16(argN), 8, []byte{0, 0, 0, 1})
			ans := mk(rq, rv(rq), 0, s, 8, []byte{0, 0, 0, 1})
			return raw(append(x, ans...))
		case "unprepared":
			// UNPREPARED naming an id of this length that nobody prepared
			id := bytes.Repeat([]byte{0xab}, argN)
			b := make([]byte, 4)
			binary.BigEndian.PutUint32(b, 0x2500)
			b = append(b, 0, 0, byte(len(id)>>8), byte(len(id)))
			b = append(b, id...)
			return raw(mk(rq, rv(rq), 0, s, 0, b))
		case "eventmsg":
			// a well-formed EVENT (stream -1) on the data connection, then the real answer
			var ev message.Message
			switch arg {
			case "status":
				ev = &message.StatusChangeEvent{ChangeType: primitive.StatusChangeTypeUp, Address: &primitive.Inet{Addr: []byte{127, 9, 9, 9}, Port: 9042}}
			case "topology":
				ev = &message.TopologyChangeEvent{ChangeType: primitive.TopologyChangeTypeNewNode, Address: &primitive.Inet{Addr: []byte{127, 9, 9, 9}, Port: 9042}}
			default:
				ev = &message.SchemaChangeEvent{ChangeType: primitive.SchemaChangeTypeCreated, Target: primitive.SchemaChangeTargetKeyspace, Keyspace: "ks"}
			}
			var buf bytes.Buffer
			if fakecass.Codec("").EncodeFrame(frame.NewFrame(rq.Header.Version, -1, ev), &buf) != nil {
				return fakecass.Response{}, false
			}
			ans := mk(rq, rv(rq), 0, s, 8, []byte{0, 0, 0, 1})
			return raw(append(buf.Bytes(), ans...))
		case "close":
			return fakecass.Response{Kind: fakecass.RespClose}, true
		}
		return fakecass.Response{}, false
	}
	if kind == "hbunprepared" {
		// once the attacker's PREPARE is in the proxy's cache, every heart-beat (OPTIONS on the pooled connections) is
		// answered with UNPREPARED naming that statement
		var armed int32
		env.Cluster.OptionsHandler = func(c *fakecass.Conn, h *frame.Header) (fakecass.Response, bool) {
			if atomic.LoadInt32(&armed) == 0 {
				return fakecass.Response{}, false
			}
			return fakecass.Response{Kind: fakecass.RespMsg, Msg: &message.Unprepared{ErrorMessage: "unprepared", Id: []byte("0123456789abcdef")}}, true
		}
		defer func() {
			atomic.StoreInt32(&armed, 1)
			time.Sleep(500 * time.Millisecond)
			atomic.StoreInt32(&armed, 0)
		}()
	}
	cl, err := env.Dial(v, "")
	if err != nil {
		return []string{"dial-error"}
	}
	defer cl.Close()
	var got []string
	// three requests: a non-idempotent write, an idempotent read, a PREPARE (each may hit either host)
	reqs := []message.Message{
		&message.Query{Query: "INSERT INTO ks.attack (k) VALUES (now())", Options: &message.QueryOptions{Consistency: primitive.ConsistencyLevelOne}},
		&message.Query{Query: "SELECT v FROM ks.attack", Options: &message.QueryOptions{Consistency: primitive.ConsistencyLevelOne}},
		&message.Prepare{Query: "SELECT v FROM ks.attack WHERE k = ?"},
		&message.Execute{QueryId: []byte("0123456789abcdef"), Options: &message.QueryOptions{Consistency: primitive.ConsistencyLevelOne}},
	}
	for i, m := range reqs {
		if err := cl.Send(int16(i+1), m); err != nil {
			got = append(got, "write-failed")
			break
		}
		n := 0
		closed := false
		for {
			to := 1500 * time.Millisecond
			if n > 0 {
				to = 60 * time.Millisecond
			}
			r, err := cl.Recv(to)
			if err == e2e.ErrTimeout {
				break
			}
			if err != nil {
				closed = true
				break
			}
			if r.Header != nil && r.Header.StreamId != int16(i+1) {
				got = append(got, fmt.Sprintf("stray-stream-%d", r.Header.StreamId))
			}
			n++
		}
		got = append(got, fmt.Sprintf("%d", n))
		if closed {
			got = append(got, "closed")
			break
		}
	}
	return got
}

// systemTableAttack: the proxy's own topology queries are answered badly on every node, and the control
// connection is dropped so that the proxy reconnects and asks again.
func systemTableAttack(env *e2e.Env, kind string) []string {
	arg := ""
	if i := strings.IndexByte(kind, ':'); i >= 0 {
		kind, arg = kind[:i], kind[i+1:]
	}
	argB, _ := hex.DecodeString(arg)
	vc := func(n string, i int32, t datatype.DataType) *message.ColumnMetadata {
		return &message.ColumnMetadata{Keyspace: "system", Table: "local", Name: n, Index: i, Type: t}
	}
	ip := func(c *fakecass.Conn) []byte { return []byte{127, 0, 0, 9} }
	env.Cluster.SystemHandler = func(c *fakecass.Conn, q string) (fakecass.Response, bool) {
		local := strings.Contains(q, "system.local")
		msg := func(m message.Message) (fakecass.Response, bool) { return fakecass.Response{Kind: fakecass.RespMsg, Msg: m}, true }
		std := []*message.ColumnMetadata{vc("key", 0, datatype.Varchar), vc("rpc_address", 1, datatype.Inet), vc("data_center", 2, datatype.Varchar),
			vc("partitioner", 3, datatype.Varchar), vc("release_version", 4, datatype.Varchar), vc("cql_version", 5, datatype.Varchar)}
		stdRow := message.Row{[]byte("local"), ip(c), []byte("dc1"), []byte("p"), []byte("4.0.0"), []byte("3.4.5")}
		rows := func(cols []*message.ColumnMetadata, data ...message.Row) (fakecass.Response, bool) {
			return msg(&message.RowsResult{Metadata: &message.RowsMetadata{ColumnCount: int32(len(cols)), Columns: cols}, Data: data})
		}
		with := func(i int, v []byte) message.Row {
			r := append(message.Row{}, stdRow...)
			r[i] = v
			return r
		}
		switch kind {
		case "local-null-dc":
			if local {
				return rows(std, with(2, nil))
			}
		case "local-null-rpc":
			if local {
				return rows(std, with(1, nil))
			}
		case "local-short-rpc":
			if local {
				return rows(std, with(1, []byte{1, 2, 3}))
			}
		case "local-no-dc-column":
			if local {
				return rows(append(append([]*message.ColumnMetadata{}, std[:2]...), std[3:]...), append(append(message.Row{}, stdRow[:2]...), stdRow[3:]...))
			}
		case "local-dc-int":
			if local {
				cols := append([]*message.ColumnMetadata{}, std...)
				cols[2] = vc("data_center", 2, datatype.Int)
				return rows(cols, with(2, []byte{0, 0}))
			}
		case "local-null-partitioner":
			if local {
				return rows(std, with(3, nil))
			}
		case "local-null-release":
			if local {
				return rows(std, with(4, nil))
			}
		case "local-no-rows":
			if local {
				return rows(std)
			}
		case "local-two-rows":
			if local {
				return rows(std, stdRow, with(2, nil))
			}
		case "local-void":
			if local {
				return msg(&message.VoidResult{})
			}
		case "local-error":
			if local {
				return msg(&message.ServerError{ErrorMessage: "boom"})
			}
		case "local-raw":
			if local {
				return fakecass.Response{Kind: fakecass.RespRaw, Raw: argB}, true
			}
		case "peers-null-all":
			if !local {
				cols := []*message.ColumnMetadata{vc("peer", 0, datatype.Inet), vc("rpc_address", 1, datatype.Inet), vc("data_center", 2, datatype.Varchar)}
				return rows(cols, message.Row{nil, nil, nil}, message.Row{[]byte{1}, []byte{2}, nil})
			}
		case "peers-error":
			if !local {
				return msg(&message.ServerError{ErrorMessage: "boom"})
			}
		case "peers-void":
			if !local {
				return msg(&message.VoidResult{})
			}
		case "peers-no-columns":
			if !local {
				return rows(nil, message.Row{}, message.Row{})
			}
		}
		return fakecass.Response{}, false
	}
	// drop the control connection(s): the proxy reconnects and runs queryHosts against the hostile answers
	dropped := 0
	for _, ipaddr := range env.IPs {
		dropped += env.Cluster.Node(ipaddr).DropConns(func(c interface{ Registered() bool }) bool { return c.Registered() })
	}
	time.Sleep(350 * time.Millisecond)
	env.Cluster.SystemHandler = nil
	time.Sleep(120 * time.Millisecond)
	return []string{fmt.Sprintf("dropped-%d", dropped)}
}

// ---- generator ----

func encodeReq(v primitive.ProtocolVersion, stream int16, msg message.Message, mod func(f *frame.Frame)) []byte {
	f := frame.NewFrame(v, stream, msg)
	if mod != nil {
		mod(f)
	}
	var buf bytes.Buffer
	if err := fakecass.Codec("").EncodeFrame(f, &buf); err != nil {
		return nil
	}
	return buf.Bytes()
}

var hostileStrings = []string{"\"", "", "\"\"", "\"a", "a\"", "\"\"\"", "system", "\"system\"", "SYSTEM", "\x00", "a\x00b", "\"\x00\"", "ks", "\"Ks\"", "'", "\\", "\xff\xfe", "ｋｓ", "\"" + strings.Repeat("x", 300) + "\"", strings.Repeat("\"", 7)}

func genHostile(e *emitter, r *rng.R, n int, tier string) {
	var ops []string
	defer func() { e.emitAll(ops, 14) }()
	maxes := []int{3, 4, 5, 65, 66}
	versions := []primitive.ProtocolVersion{3, 4, 5, 65, 66}
	opts := &message.QueryOptions{Consistency: primitive.ConsistencyLevelOne}
	add := func(max int, frames ...[]byte) {
		var all []byte
		for _, f := range frames {
			all = append(all, f...)
		}
		ops = append(ops, fmt.Sprintf("M:%d C:%s", max, hex.EncodeToString(all)))
	}
	startup := func(v primitive.ProtocolVersion) []byte {
		return encodeReq(v, 1, &message.Startup{Options: map[string]string{"CQL_VERSION": "3.0.0"}}, nil)
	}
	// 1. hostile strings in every string-typed field, every maximum version, every client version
	for _, max := range maxes {
		for _, v := range versions {
			for _, s := range hostileStrings {
				add(max, startup(v), encodeReq(v, 2, &message.Prepare{Query: "SELECT * FROM local", Keyspace: s}, nil))
				add(max, startup(v), encodeReq(v, 2, &message.Prepare{Query: "SELECT v FROM t", Keyspace: s}, nil))
				if v == 4 || tier == "thorough" {
					add(max, startup(v), encodeReq(v, 2, &message.Query{Query: "USE " + s, Options: opts}, nil), encodeReq(v, 3, &message.Query{Query: "SELECT * FROM local", Options: opts}, nil))
					add(max, startup(v), encodeReq(v, 2, &message.Query{Query: "SELECT * FROM " + s + ".local", Options: opts}, nil))
					add(max, startup(v), encodeReq(v, 2, &message.Query{Query: "SELECT " + s + " FROM system.local", Options: opts}, nil))
					add(max, startup(v), encodeReq(v, 2, &message.Query{Query: "SELECT count(" + s + ") AS " + s + " FROM system.peers", Options: opts}, nil))
					add(max, encodeReq(v, 1, &message.Startup{Options: map[string]string{"CQL_VERSION": s, s: s, "COMPRESSION": strings.TrimSuffix(s, "4")}}, nil), encodeReq(v, 2, &message.Options{}, nil))
				}
			}
		}
	}
	// 1b. well-formed queries on the virtual tables that rename columns: what one client asks for must not change
	// what the canary (or anybody else) gets afterwards
	for _, q := range []string{"SELECT key AS k FROM system.local", "SELECT rpc_address AS key, key AS rpc_address FROM system.local", "SELECT count(*) AS key FROM system.local",
		"SELECT peer AS key, data_center AS peer FROM system.peers", "SELECT key AS \"KEY\", host_id AS key FROM system.local", "SELECT now() AS key FROM system.local"} {
		for _, v := range []primitive.ProtocolVersion{3, 4, 5} {
			add(5, startup(v), encodeReq(v, 2, &message.Query{Query: q, Options: opts}, nil), encodeReq(v, 3, &message.Query{Query: q, Options: opts}, nil))
			add(5, startup(v), encodeReq(v, 2, &message.Prepare{Query: q}, nil))
		}
	}
	// 2. big frames (the proxy enforces no frame-size limit; 16 MiB is the declared scope)
	for _, z := range []int{1 << 16, 1 << 20, 16<<20 - 64} {
		ops = append(ops, fmt.Sprintf("M:4 Z:%d", z))
	}
	ops = append(ops, "M:4 U:1500", "M:4 U:0", "M:66 U:1200", "M:4 H:6000", "M:4 W:3000", "M:4 W:6000", "M:4 T:silent", "M:4 T:partial", "M:4 T:garbage")
	// 3. hostile backends
	for _, k := range []string{"wrongstream:1000", "wrongstream:-1", "wrongstream:1", "dup", "shorterr:0", "shorterr:1", "shorterr:3", "shorterr:4", "shorterr:5", "shorterr:7",
		"errbody:00002500", "errbody:0000250000", "errbody:000025000000", "errbody:0000250000000010abab", "errbody:00001000000000", "errbody:000011000000", "errbody:0000120000000001", "errbody:00001300",
		"errbody:ffffffff0000", "errbody:0000240000", "errflags:1", "errflags:2", "errflags:4", "errflags:8", "errflags:15", "errflags:255",
		"resultbody:", "resultbody:00", "resultbody:00000002", "resultbody:0000000200000001", "resultbody:00000004", "resultbody:0000000400", "resultbody:00000005", "resultbody:000000ff", "resultbody:00000003",
		"resultflags:1", "resultflags:2", "resultflags:4", "resultflags:8", "resultflags:255",
		"opcode:0", "opcode:2", "opcode:3", "opcode:6", "opcode:12", "opcode:14", "opcode:16", "opcode:7", "opcode:1", "opcode:99", "opcode:255",
		"reqdir:8", "reqdir:7", "version:0", "version:132", "version:131", "version:133", "version:194", "version:255", "version:130", "neglen", "truncated:3", "truncated:9", "truncated:11",
		"event:", "event:00", "event:000d544f504f4c4f47595f4348414e4745", "event:000d5354415455535f4348414e4745000255500403", "event:000d534348454d415f4348414e4745", "event:000d534348454d415f4348414e47450007435245415445440005", "event:ffff",
		"eventmsg:status", "eventmsg:topology", "eventmsg:schema", "hbunprepared", "unsolicited:3000", "unsolicited:0", "unsolicited:-1", "unprepared:0", "unprepared:16", "unprepared:1", "unprepared:300", "close"} {
		for _, m := range []int{4, 66} {
			ops = append(ops, fmt.Sprintf("M:%d B:%s", m, k))
		}
	}
	for _, k := range []string{"local-null-dc", "local-null-rpc", "local-short-rpc", "local-no-dc-column", "local-dc-int", "local-null-partitioner", "local-null-release", "local-no-rows", "local-two-rows",
		"local-void", "local-error", "local-raw:", "local-raw:8400000008000000040000000100", "local-raw:840000000800000004000000", "local-raw:8400000000000000060000000a0000",
		"peers-null-all", "peers-error", "peers-void", "peers-no-columns"} {
		ops = append(ops, "M:4 L:"+k)
	}
	// 4. generated client byte streams: well-formed frames of every request kind and version with mutated fields
	for i := 0; i < n; i++ {
		rr := r.Fork(uint64(i))
		max := maxes[rr.Intn(len(maxes))]
		var frames [][]byte
		nf := 1 + rr.Intn(4)
		for j := 0; j < nf; j++ {
			v := versions[rr.Intn(len(versions))]
			if rr.Intn(3) > 0 && int(v) > max { // mostly frames the gate lets through
				v = primitive.ProtocolVersion(max)
				if max > 5 && rr.Intn(2) == 0 {
					v = 4
				}
			}
			f := hostileFrame(rr, v, int16(j+1))
			if f == nil {
				continue
			}
			frames = append(frames, f)
		}
		if len(frames) == 0 {
			continue
		}
		if rr.Intn(6) == 0 { // the last frame arrives incomplete
			l := frames[len(frames)-1]
			frames[len(frames)-1] = l[:rr.Intn(len(l))]
		}
		add(max, frames...)
	}
}

func hostileFrame(rr *rng.R, v primitive.ProtocolVersion, stream int16) []byte {
	opts := &message.QueryOptions{Consistency: primitive.ConsistencyLevelOne}
	hs := func() string { return hostileStrings[rr.Intn(len(hostileStrings))] }
	var msg message.Message
	switch rr.Intn(9) {
	case 0:
		m := map[string]string{"CQL_VERSION": "3.0.0"}
		for k := 0; k < rr.Intn(3); k++ {
			m[hs()] = hs()
		}
		if rr.Intn(4) == 0 {
			m["COMPRESSION"] = rr.Pick([]string{"zstd", "", "lz", "snappy2", "\x00"})
		}
		msg = &message.Startup{Options: m}
	case 1:
		msg = &message.Options{}
	case 2:
		var ts []primitive.EventType
		for k := 0; k < 1+rr.Intn(3); k++ {
			ts = append(ts, primitive.EventType(rr.Pick([]string{"SCHEMA_CHANGE", "TOPOLOGY_CHANGE", "STATUS_CHANGE", "STATUS_CHANGE", "schema_change", "", "X"})))
		}
		msg = &message.Register{EventTypes: ts}
	case 3:
		msg = &message.Prepare{Query: rr.Pick([]string{"SELECT * FROM system.local", "SELECT v FROM ks.t WHERE k = ?", "USE " + hs(), "SELECT * FROM local", ""}), Keyspace: rr.Pick([]string{"", "", hs()})}
	case 4:
		msg = &message.Execute{QueryId: []byte(rr.Pick([]string{"0123456789abcdef", "", "x"})), ResultMetadataId: []byte("0123456789abcdef"), Options: opts}
	case 5:
		msg = &message.Batch{Type: primitive.BatchTypeLogged, Consistency: primitive.ConsistencyLevelOne, Children: []*message.BatchChild{
			{Query: "INSERT INTO ks.t (k) VALUES (1)"}, {Id: []byte("0123456789abcdef"), Values: []*primitive.Value{primitive.NewValue([]byte{1})}}}}
	case 6:
		msg = &message.AuthResponse{Token: []byte(hs())}
	default:
		msg = &message.Query{Query: rr.Pick([]string{"SELECT * FROM system.local", "SELECT v FROM ks.t", "USE " + hs(), "SELECT * FROM " + hs() + ".peers", "INSERT INTO t (a) VALUES (1)", "", hs()}), Options: opts}
	}
	b := encodeReq(v, stream, msg, func(f *frame.Frame) {
		if rr.Intn(8) == 0 && v >= 4 {
			f.SetCustomPayload(map[string][]byte{hs(): []byte(hs()), "k": nil})
		}
	})
	if b == nil {
		return nil
	}
	setLen := func() { binary.BigEndian.PutUint32(b[5:9], uint32(len(b)-9)) }
	small := []byte{0, 1, 0xff, 0x80} // never a large positive top byte: lengths above 16 MiB are outside the property (the library allocates them up front)
	switch rr.Intn(14) {
	case 0, 1, 2: // unmodified
	case 3: // header flags
		b[1] = byte(rr.Pick([]string{"\x01", "\x02", "\x04", "\x08", "\x10", "\x06", "\x0f", "\xff", "\x20", "\x0c"})[0])
	case 4: // declared length
		switch rr.Intn(6) {
		case 0:
			binary.BigEndian.PutUint32(b[5:9], uint32(len(b)-9+1+rr.Intn(40)))
		case 1:
			if len(b) > 9 {
				binary.BigEndian.PutUint32(b[5:9], uint32(rr.Intn(len(b)-9)))
			}
		case 2:
			binary.BigEndian.PutUint32(b[5:9], 0xffffffff)
		case 3:
			binary.BigEndian.PutUint32(b[5:9], 0x80000000)
		case 4:
			binary.BigEndian.PutUint32(b[5:9], 16<<20)
		default:
			binary.BigEndian.PutUint32(b[5:9], 0)
		}
	case 5: // truncated body, consistent length
		if len(b) > 9 {
			b = b[:9+rr.Intn(len(b)-9)]
			setLen()
		}
	case 6, 7: // corrupted body bytes
		for k := 0; k < 1+rr.Intn(3) && len(b) > 9; k++ {
			b[9+rr.Intn(len(b)-9)] = small[rr.Intn(len(small))]
		}
	case 8: // opcode
		b[4] = byte(rr.Pick([]string{"\x00", "\x02", "\x03", "\x04", "\x06", "\x08", "\x0c", "\x0e", "\x10", "\x11", "\x63", "\xff", "\x01", "\x05", "\x07", "\x09", "\x0a", "\x0b", "\x0d", "\x0f"})[0])
	case 9: // version byte
		b[0] = byte(rr.Pick([]string{"\x00", "\x01", "\x02", "\x06", "\x07", "\x40", "\x43", "\x7f", "\x83", "\x84", "\x85", "\xc1", "\xc2", "\xff", "\x03", "\x04", "\x05", "\x41", "\x42"})[0])
		if b[0]&0x7f <= 2 { // one-byte stream ids
			b = append(b[:2], b[3:]...)
		}
	case 10: // trailing garbage inside the body
		for k := 0; k < 1+rr.Intn(6); k++ {
			b = append(b, small[rr.Intn(len(small))])
		}
		setLen()
	case 11: // stream id
		b[2], b[3] = byte(rr.Intn(256)), byte(rr.Intn(256))
	case 12: // response direction
		b[0] |= 0x80
	default: // random bytes as the body
		nb := rr.Intn(24)
		b = b[:9]
		for k := 0; k < nb; k++ {
			b = append(b, small[rr.Intn(len(small))])
		}
		setLen()
	}
	return b
}
