package main

// extract locks: shared-field access facts with static locksets, from the typed SSA of /repo (proxy, proxycore).
// For every access to a field of the tracked structs: the field, read/write, the locks that are certainly held
// there (must-hold dataflow inside the function, joined with the intersection over all call sites of what the
// callers hold - VTA call graph), the function, and the goroutine roots the function can run on.
// Output: Gen/LockFacts.lean.  Spec/LockDiscipline.lean states per field how it is protected; theorem
// C18.discipline_holds proves by kernel evaluation that every extracted access obeys it.

import (
	"fmt"
	"go/token"
	"go/types"
	"sort"
	"strings"

	"golang.org/x/tools/go/callgraph"
	"golang.org/x/tools/go/callgraph/cha"
	"golang.org/x/tools/go/callgraph/vta"
	"golang.org/x/tools/go/packages"
	"golang.org/x/tools/go/ssa"
	"golang.org/x/tools/go/ssa/ssautil"
)

func init() { extractors["locks"] = extractLocks }

var tracked = map[string]bool{
	"proxy.Proxy": true, "proxy.client": true, "proxy.request": true,
	"proxycore.ClientConn": true, "proxycore.connPool": true, "proxycore.Session": true,
	"proxycore.Cluster": true, "proxycore.roundRobinLoadBalancer": true, "proxycore.Conn": true,
	"proxycore.pendingRequests": true,
}

func structName(t types.Type) string {
	if p, ok := t.Underlying().(*types.Pointer); ok {
		t = p.Elem()
	}
	if n, ok := t.(*types.Named); ok && n.Obj().Pkg() != nil {
		return n.Obj().Pkg().Name() + "." + n.Obj().Name()
	}
	return ""
}

func lockClass(v ssa.Value) string {
	switch x := v.(type) {
	case *ssa.UnOp:
		return lockClass(x.X)
	case *ssa.FieldAddr:
		st := x.X.Type().Underlying().(*types.Pointer).Elem()
		return structName(st) + "." + st.Underlying().(*types.Struct).Field(x.Field).Name()
	}
	return fmt.Sprintf("?%T", v)
}

type lockOp struct {
	key string
	acq bool
}

func asLockOp(c *ssa.CallCommon) (lockOp, bool) {
	callee := c.StaticCallee()
	if callee == nil || callee.Pkg == nil || callee.Pkg.Pkg.Path() != "sync" || callee.Signature.Recv() == nil {
		return lockOp{}, false
	}
	if !strings.Contains(callee.Signature.Recv().Type().String(), "Mutex") {
		return lockOp{}, false
	}
	m := map[string]lockOp{"Lock": {"/W", true}, "RLock": {"/R", true}, "Unlock": {"/W", false}, "RUnlock": {"/R", false}}
	op, ok := m[callee.Name()]
	if !ok {
		return lockOp{}, false
	}
	op.key = lockClass(c.Args[0]) + op.key
	return op, true
}

type set map[string]bool

func (s set) clone() set {
	r := set{}
	for k := range s {
		r[k] = true
	}
	return r
}
func (s set) keys() []string {
	var r []string
	for k := range s {
		r = append(r, k)
	}
	sort.Strings(r)
	return r
}
func inter(a, b set) set {
	r := set{}
	for k := range a {
		if b[k] {
			r[k] = true
		}
	}
	return r
}

func extractLocks(outDir string) error {
	pkgs, err := packages.Load(&packages.Config{Mode: packages.LoadAllSyntax, Dir: repoRoot()}, "./proxy", "./proxycore")
	if err != nil {
		return err
	}
	if packages.PrintErrors(pkgs) > 0 {
		return fmt.Errorf("type errors")
	}
	prog, spkgs := ssautil.AllPackages(pkgs, ssa.InstantiateGenerics)
	prog.Build()
	mine := map[*ssa.Package]bool{}
	for _, p := range spkgs {
		if p != nil {
			mine[p] = true
		}
	}
	inMine := func(f *ssa.Function) bool {
		for f != nil && f.Parent() != nil {
			f = f.Parent()
		}
		return f != nil && f.Pkg != nil && mine[f.Pkg]
	}
	cg := vta.CallGraph(ssautil.AllFunctions(prog), cha.CallGraph(prog))

	// 1. per-instruction held sets (intra-procedural must-hold)
	heldAt := map[ssa.Instruction]set{}
	var funcs []*ssa.Function
	for f := range ssautil.AllFunctions(prog) {
		if !inMine(f) || f.Blocks == nil || strings.HasSuffix(prog.Fset.Position(f.Pos()).Filename, "_test.go") || strings.Contains(prog.Fset.Position(f.Pos()).Filename, "mockcluster") {
			continue
		}
		funcs = append(funcs, f)
		out := map[*ssa.BasicBlock]set{}
		in := map[*ssa.BasicBlock]set{}
		universe := set{}
		for _, b := range f.Blocks {
			for _, ins := range b.Instrs {
				if x, ok := ins.(ssa.CallInstruction); ok {
					if op, ok := asLockOp(x.Common()); ok {
						universe[op.key] = true
					}
				}
			}
		}
		for i, b := range f.Blocks {
			if i > 0 {
				out[b] = universe.clone() // TOP for a must-analysis
			}
		}
		for iter, changed := 0, true; changed && iter < 30; iter++ {
			changed = false
			for _, b := range f.Blocks {
				var cur set
				for _, p := range b.Preds {
					if o, ok := out[p]; ok {
						if cur == nil {
							cur = o.clone()
						} else {
							cur = inter(cur, o)
						}
					}
				}
				if cur == nil {
					cur = set{}
				}
				in[b] = cur
				h := cur.clone()
				for _, ins := range b.Instrs {
					if _, isDefer := ins.(*ssa.Defer); isDefer {
						continue
					}
					if x, ok := ins.(ssa.CallInstruction); ok {
						if op, ok := asLockOp(x.Common()); ok {
							if op.acq {
								h[op.key] = true
							} else {
								delete(h, op.key)
							}
						}
					}
				}
				if out[b] == nil || fmt.Sprint(out[b].keys()) != fmt.Sprint(h.keys()) {
					out[b] = h
					changed = true
				}
			}
		}
		for _, b := range f.Blocks {
			h := in[b].clone()
			for _, ins := range b.Instrs {
				heldAt[ins] = h.clone()
				if _, isDefer := ins.(*ssa.Defer); isDefer {
					continue
				}
				if x, ok := ins.(ssa.CallInstruction); ok {
					if op, ok := asLockOp(x.Common()); ok {
						if op.acq {
							h[op.key] = true
						} else {
							delete(h, op.key)
						}
					}
				}
			}
		}
	}
	// 2. entry locksets: intersection over call sites (non-go) of (held at site ∪ entry(caller)); roots (no callers in mine, or go targets) = {}
	entry := map[*ssa.Function]set{}
	isRoot := map[*ssa.Function]bool{}
	callers := map[*ssa.Function][]*callgraph.Edge{}
	for _, f := range funcs {
		if n := cg.Nodes[f]; n != nil {
			for _, e := range n.In {
				if inMine(e.Caller.Func) {
					callers[f] = append(callers[f], e)
				}
			}
		}
		// closures: treat the enclosing function's MakeClosure site as the call site when passed as an argument
	}
	closureSite := map[*ssa.Function]ssa.Instruction{}
	for _, f := range funcs {
		for _, b := range f.Blocks {
			for _, ins := range b.Instrs {
				if mc, ok := ins.(*ssa.MakeClosure); ok {
					closureSite[mc.Fn.(*ssa.Function)] = ins
				}
			}
		}
	}
	for _, f := range funcs {
		entry[f] = nil // top = unknown yet
	}
	for changed := true; changed; {
		changed = false
		for _, f := range funcs {
			var acc set
			root := len(callers[f]) == 0
			for _, e := range callers[f] {
				if e.Site == nil {
					root = true
					continue
				}
				if _, isGo := e.Site.(*ssa.Go); isGo {
					root = true
					continue
				}
				if _, isDefer := e.Site.(*ssa.Defer); isDefer {
					root = true // conservative
					continue
				}
				ce := entry[e.Caller.Func]
				if ce == nil && !isRoot[e.Caller.Func] {
					continue // caller not computed yet
				}
				h := heldAt[e.Site].clone()
				for k := range ce {
					h[k] = true
				}
				if acc == nil {
					acc = h
				} else {
					acc = inter(acc, h)
				}
			}
			if site, ok := closureSite[f]; ok && len(callers[f]) == 0 {
				// closure only passed as value: assume called where created (e.g. Range callbacks); SenderFunc closures run on the writer goroutine -> root
				_ = site
				root = true
			}
			if root {
				acc = set{}
				isRoot[f] = true
			}
			if acc != nil && fmt.Sprint(acc.keys()) != fmt.Sprint(entry[f].keys()) || (acc != nil && entry[f] == nil) {
				entry[f] = acc
				changed = true
			}
		}
	}
	// 2b. goroutine roots: targets of `go` statements and functions nobody in these packages calls; the generic
	// reader / writer loops of proxycore.Conn are split by what they dispatch to (Receive / Closing / Send
	// implementations), so that "runs on the client's reader" and "runs on a backend connection's reader" differ.
	dispatch := map[string]bool{"(*github.com/datastax/cql-proxy/proxycore.Conn).read": true, "(*github.com/datastax/cql-proxy/proxycore.Conn).write": true}
	rootSet := map[*ssa.Function]string{}
	for _, f := range funcs {
		n := cg.Nodes[f]
		if n == nil {
			continue
		}
		if dispatch[f.String()] {
			for _, e := range n.Out {
				if inMine(e.Callee.Func) && e.Site != nil && e.Site.Common().IsInvoke() {
					rootSet[e.Callee.Func] = shortFn(f) + ">" + shortFn(e.Callee.Func)
				}
			}
			continue
		}
		isGo, hasCaller := false, false
		for _, e := range n.In {
			if !inMine(e.Caller.Func) {
				continue
			}
			if _, ok := e.Site.(*ssa.Go); ok {
				isGo = true
			} else {
				hasCaller = true
			}
		}
		if isGo {
			rootSet[f] = "go " + shortFn(f)
		} else if !hasCaller && f.Parent() == nil && f.Synthetic == "" {
			if _, already := rootSet[f]; !already {
				rootSet[f] = "api " + shortFn(f)
			}
		}
	}
	reach := map[*ssa.Function]map[string]bool{}
	for r, name := range rootSet {
		if dispatch[r.String()] {
			continue
		}
		seen := map[*ssa.Function]bool{r: true}
		work := []*ssa.Function{r}
		for len(work) > 0 {
			f := work[len(work)-1]
			work = work[:len(work)-1]
			if reach[f] == nil {
				reach[f] = map[string]bool{}
			}
			reach[f][name] = true
			n := cg.Nodes[f]
			if n == nil {
				continue
			}
			for _, e := range n.Out {
				if _, ok := e.Site.(*ssa.Go); ok {
					continue
				}
				c := e.Callee.Func
				if !inMine(c) || seen[c] || dispatch[c.String()] {
					continue
				}
				seen[c] = true
				work = append(work, c)
			}
			for _, af := range f.AnonFuncs { // closures run where they are called; when only passed along, assume the creator's thread too
				if !seen[af] {
					seen[af] = true
					work = append(work, af)
				}
			}
		}
	}
	rootsOf := func(f *ssa.Function) []string {
		var r []string
		for k := range reach[f] {
			r = append(r, k)
		}
		sort.Strings(r)
		return r
	}
	// 3. accesses to tracked struct fields
	var facts []lockFact
	for _, f := range funcs {
		for _, b := range f.Blocks {
			for _, ins := range b.Instrs {
				fa, ok := ins.(*ssa.FieldAddr)
				if !ok {
					continue
				}
				sn := structName(fa.X.Type())
				if !tracked[sn] {
					continue
				}
				st := fa.X.Type().Underlying().(*types.Pointer).Elem().Underlying().(*types.Struct)
				fld := st.Field(fa.Field)
				ft := fld.Type().String()
				if strings.Contains(ft, "sync.") || strings.Contains(ft, "atomic.") || strings.HasPrefix(ft, "chan ") {
					continue
				}
				kind := "?"
				if isInitStore(fa) {
					continue // a field of a freshly allocated object, set before the object is handed to anyone
				}
				for _, u := range *fa.Referrers() {
					switch x := u.(type) {
					case *ssa.Store:
						if x.Addr == fa {
							kind = "W"
						}
					case *ssa.UnOp:
						if x.Op == token.MUL && kind != "W" {
							kind = "R"
							// map ops on the loaded value
							for _, u2 := range *x.Referrers() {
								switch x2 := u2.(type) {
								case *ssa.MapUpdate:
									kind = "W(map)"
								case *ssa.IndexAddr:
									// p.conns[idx] = v: a store through an element address of the loaded slice
									for _, u3 := range *x2.Referrers() {
										if st, ok := u3.(*ssa.Store); ok && st.Addr == ssa.Value(x2) {
											kind = "W(elem)"
										}
									}
								}
								if c, ok := u2.(*ssa.Call); ok {
									if bi, ok := c.Call.Value.(*ssa.Builtin); ok && bi.Name() == "delete" {
										kind = "W(map)"
									}
								}
							}
						}
					case *ssa.IndexAddr:
						kind = "idx"
					}
				}
				h := heldAt[ins].clone()
				for k := range entry[f] {
					h[k] = true
				}
				pos := prog.Fset.Position(fa.Pos())
				_ = pos
				facts = append(facts, lockFact{sn + "." + fld.Name(), kind, h.keys(), shortFn(f), rootsOf(f)})
			}
		}
	}
	if err := emitLockOrder(outDir, prog, funcs, cg, inMine); err != nil {
		return err
	}
	return emitLockFacts(outDir, facts)
}

type lockFact struct {
	field, kind string
	locks       []string
	fn          string
	roots       []string
}

func shortFn(f *ssa.Function) string {
	s := f.String()
	s = strings.ReplaceAll(s, "github.com/datastax/cql-proxy/", "")
	return s
}

func leanStrList(xs []string) string {
	var q []string
	for _, x := range xs {
		q = append(q, leanStr(x))
	}
	return "[" + strings.Join(q, ", ") + "]"
}

func emitLockFacts(outDir string, facts []lockFact) error {
	// one entry per distinct (field, kind, locks, fn, roots)
	seen := map[string]bool{}
	var rows []string
	sort.SliceStable(facts, func(i, j int) bool {
		if facts[i].field != facts[j].field {
			return facts[i].field < facts[j].field
		}
		if facts[i].fn != facts[j].fn {
			return facts[i].fn < facts[j].fn
		}
		return facts[i].kind < facts[j].kind
	})
	for _, f := range facts {
		row := fmt.Sprintf("  (%s, %s, %s, %s, %s)", leanStr(f.field), leanStr(f.kind), leanStrList(f.locks), leanStr(f.fn), leanStrList(f.roots))
		if !seen[row] {
			seen[row] = true
			rows = append(rows, row)
		}
	}
	var sb strings.Builder
	sb.WriteString("-- GENERATED by `vh extract locks` from /repo (proxy, proxycore). Do not edit.\n")
	sb.WriteString("namespace CqlVerif.Gen.LockFacts\n\n")
	sb.WriteString("/-- (field, access kind, locks certainly held, function, goroutine roots the function runs on) -/\n")
	sb.WriteString("def facts : List (String × String × List String × String × List String) := [\n")
	sb.WriteString(strings.Join(rows, ",\n"))
	sb.WriteString("\n]\n\nend CqlVerif.Gen.LockFacts\n")
	return writeGen(outDir, "LockFacts.lean", sb.String())
}

// isInitStore: fa addresses a field of an object allocated in this function (composite literal / new), it is only
// stored to, and between the allocation and this instruction the object is not used for anything but taking
// field addresses - so no other goroutine can know it yet.
func isInitStore(fa *ssa.FieldAddr) bool {
	al, ok := fa.X.(*ssa.Alloc)
	if !ok || al.Block() != fa.Block() {
		return false
	}
	for _, u := range *fa.Referrers() {
		if st, ok := u.(*ssa.Store); !ok || st.Addr != fa {
			return false
		}
	}
	started := false
	for _, ins := range fa.Block().Instrs {
		if ins == ssa.Instruction(al) {
			started = true
			continue
		}
		if !started {
			continue
		}
		if ins == ssa.Instruction(fa) {
			return true
		}
		var ops []*ssa.Value
		for _, o := range ins.Operands(ops) {
			if *o == ssa.Value(al) {
				if _, isFA := ins.(*ssa.FieldAddr); !isFA {
					return false
				}
			}
		}
	}
	return false
}
