package main

// lexer: translator of the ragel -G2 goto program in parser/lexer.go into transition tables, by
// partial evaluation (DESIGN §3.2 item 1): for every state and every byte value the program is run
// from `st_case_N` with `data[p]` fixed until the next state entry or `_out`, recording the
// primitive actions on the way. Nothing is pattern-matched except the primitive assignments.

import (
	"fmt"
	"go/ast"
	"go/parser"
	"go/printer"
	"go/token"
	"path/filepath"
	"sort"
	"strconv"
	"strings"
)

type lxAct struct {
	Op      string
	K       int
	Tk      string
	Alt     map[int][]lxAct
	AltNext map[int]string
}

type lxEdge struct {
	Acts []lxAct
	Next string
}

var lxFset = token.NewFileSet()
var lxStmts []ast.Stmt
var lxLabelIdx = map[string]int{}

func lxSrc(n ast.Node) string {
	var sb strings.Builder
	printer.Fprint(&sb, lxFset, n)
	return sb.String()
}

type lxEnv struct {
	c    int // data[p]
	acts []lxAct
}

func lxEvalInt(e ast.Expr, en *lxEnv) (int, bool) {
	switch x := e.(type) {
	case *ast.BasicLit:
		v, err := strconv.Atoi(x.Value)
		return v, err == nil
	case *ast.IndexExpr: // data[p]
		if lxSrc(x) == "data[p]" {
			return en.c, true
		}
	case *ast.ParenExpr:
		return lxEvalInt(x.X, en)
	}
	return 0, false
}

func lxEvalCond(e ast.Expr, en *lxEnv) bool {
	switch x := e.(type) {
	case *ast.BinaryExpr:
		switch x.Op {
		case token.LAND:
			return lxEvalCond(x.X, en) && lxEvalCond(x.Y, en)
		case token.LOR:
			return lxEvalCond(x.X, en) || lxEvalCond(x.Y, en)
		}
		a, ok1 := lxEvalInt(x.X, en)
		b, ok2 := lxEvalInt(x.Y, en)
		if !ok1 || !ok2 {
			panic("cond: " + lxSrc(e))
		}
		switch x.Op {
		case token.EQL:
			return a == b
		case token.NEQ:
			return a != b
		case token.LSS:
			return a < b
		case token.LEQ:
			return a <= b
		case token.GTR:
			return a > b
		case token.GEQ:
			return a >= b
		}
	case *ast.ParenExpr:
		return lxEvalCond(x.X, en)
	}
	panic("cond: " + lxSrc(e))
}

// exec returns (jump label or "", done)
// result kinds: "goto:L", "fall"
func lxExecStmt(s ast.Stmt, en *lxEnv) string {
	switch x := s.(type) {
	case *ast.LabeledStmt:
		return lxExecStmt(x.Stmt, en)
	case *ast.BranchStmt:
		if x.Tok == token.GOTO {
			return "goto:" + x.Label.Name
		}
		panic("branch " + lxSrc(s))
	case *ast.BlockStmt:
		for _, t := range x.List {
			if r := lxExecStmt(t, en); r != "fall" {
				return r
			}
		}
		return "fall"
	case *ast.EmptyStmt:
		return "fall"
	case *ast.IncDecStmt:
		if lxSrc(x) == "p++" {
			en.acts = append(en.acts, lxAct{Op: "p++"})
			return "fall"
		}
		if lxSrc(x) == "p--" {
			en.acts = append(en.acts, lxAct{Op: "p--"})
			return "fall"
		}
		panic(lxSrc(s))
	case *ast.AssignStmt:
		t := lxSrc(x)
		switch {
		case t == "te = p":
			en.acts = append(en.acts, lxAct{Op: "te=p"})
		case t == "te = p + 1":
			en.acts = append(en.acts, lxAct{Op: "te=p+1"})
		case t == "p = (te) - 1":
			en.acts = append(en.acts, lxAct{Op: "p=te-1"})
		case t == "ts = p":
			en.acts = append(en.acts, lxAct{Op: "ts=p"})
		case t == "ts = 0":
			en.acts = append(en.acts, lxAct{Op: "ts=0"})
		case strings.HasPrefix(t, "act = "):
			k, _ := strconv.Atoi(strings.TrimPrefix(t, "act = "))
			en.acts = append(en.acts, lxAct{Op: "act", K: k})
		case strings.HasPrefix(t, "cs = "):
			k, _ := strconv.Atoi(strings.TrimPrefix(t, "cs = "))
			en.acts = append(en.acts, lxAct{Op: "cs", K: k})
		case strings.HasPrefix(t, "tk = "):
			en.acts = append(en.acts, lxAct{Op: "tk", Tk: strings.TrimPrefix(t, "tk = ")})
		case t == "l.id = l.data[ts:te]":
			en.acts = append(en.acts, lxAct{Op: "id"})
		default:
			panic("assign " + t)
		}
		return "fall"
	case *ast.IfStmt:
		if x.Init != nil {
			panic("if-init reached inside edge: " + lxSrc(s))
		}
		if lxEvalCond(x.Cond, en) {
			return lxExecStmt(x.Body, en)
		} else if x.Else != nil {
			return lxExecStmt(x.Else, en)
		}
		return "fall"
	case *ast.SwitchStmt:
		if x.Tag != nil && lxSrc(x.Tag) == "act" {
			return "byact"
		}
		var tag int
		hasTag := x.Tag != nil
		if hasTag {
			v, ok := lxEvalInt(x.Tag, en)
			if !ok {
				panic("switch tag " + lxSrc(x.Tag))
			}
			tag = v
		}
		var def *ast.CaseClause
		for _, cc := range x.Body.List {
			c := cc.(*ast.CaseClause)
			if c.List == nil {
				def = c
				continue
			}
			match := false
			for _, e := range c.List {
				if hasTag {
					v, ok := lxEvalInt(e, en)
					if !ok {
						panic("case " + lxSrc(e))
					}
					if v == tag {
						match = true
					}
				} else if lxEvalCond(e, en) {
					match = true
				}
			}
			if match {
				for _, t := range c.Body {
					if r := lxExecStmt(t, en); r != "fall" {
						return r
					}
				}
				return "fall"
			}
		}
		if def != nil {
			for _, t := range def.Body {
				if r := lxExecStmt(t, en); r != "fall" {
					return r
				}
			}
		}
		return "fall"
	}
	panic(fmt.Sprintf("stmt %T %s", s, lxSrc(s)))
}

// isStateEntry: "stN: if p++; p == pe { goto _test_eofN }"
func lxStateEntry(s ast.Stmt) (int, bool) {
	ls, ok := s.(*ast.LabeledStmt)
	if !ok || !strings.HasPrefix(ls.Label.Name, "st") || strings.HasPrefix(ls.Label.Name, "st_") {
		return 0, false
	}
	n, err := strconv.Atoi(strings.TrimPrefix(ls.Label.Name, "st"))
	if err != nil {
		return 0, false
	}
	return n, true
}

func lxRun(start int, en *lxEnv) lxEdge {
	i := start
	steps := 0
	for {
		steps++
		if steps > 10000 {
			panic("loop")
		}
		if i >= len(lxStmts) {
			panic("fell off")
		}
		s := lxStmts[i]
		if i != start {
			if n, ok := lxStateEntry(s); ok {
				return lxEdge{Acts: en.acts, Next: "st" + strconv.Itoa(n)}
			}
		}
		// stN labelled statement at start: skip the "if p++; p==pe" (we model entry separately)
		if ls, ok := s.(*ast.LabeledStmt); ok {
			if ls.Label.Name == "_out" {
				return lxEdge{Acts: en.acts, Next: "out"}
			}
			if _, ok := lxStateEntry(s); ok && i == start {
				i++
				continue
			}
		}
		r := lxExecStmt(s, en)
		switch {
		case r == "fall":
			i++
		case r == "byact":
			// dispatch on runtime act: evaluate each case
			sw := s.(*ast.LabeledStmt).Stmt.(*ast.SwitchStmt)
			alt := map[int][]lxAct{}
			altn := map[int]string{}
			for _, cc := range sw.Body.List {
				c := cc.(*ast.CaseClause)
				for _, e := range c.List {
					k, _ := strconv.Atoi(lxSrc(e))
					sub := &lxEnv{c: en.c}
					res := "fall"
					for _, t := range c.Body {
						if res = lxExecStmt(t, sub); res != "fall" {
							break
						}
					}
					alt[k] = sub.acts
					altn[k] = res
				}
			}
			en.acts = append(en.acts, lxAct{Op: "byact", Alt: alt, AltNext: altn})
			// after the switch (no case matched / fallthrough) continue with next stmt; record as default path
			i++
		case strings.HasPrefix(r, "goto:"):
			l := strings.TrimPrefix(r, "goto:")
			if l == "_out" {
				return lxEdge{Acts: en.acts, Next: "out"}
			}
			if strings.HasPrefix(l, "st_case_") {
				return lxEdge{Acts: en.acts, Next: "case" + strings.TrimPrefix(l, "st_case_")}
			}
			if n, err := strconv.Atoi(strings.TrimPrefix(l, "st")); err == nil && strings.HasPrefix(l, "st") {
				return lxEdge{Acts: en.acts, Next: "st" + strconv.Itoa(n)}
			}
			j, ok := lxLabelIdx[l]
			if !ok {
				panic("label " + l)
			}
			i = j
		}
	}
}

func lxLeanActs(as []lxAct, tokNum map[string]int) (string, error) {
	var parts []string
	for _, a := range as {
		switch a.Op {
		case "te=p+1":
			parts = append(parts, ".teP1")
		case "te=p":
			parts = append(parts, ".teP")
		case "p=te-1":
			parts = append(parts, ".pTeM1")
		case "p++":
			parts = append(parts, ".pInc")
		case "p--":
			parts = append(parts, ".pDec")
		case "ts=p":
			parts = append(parts, ".tsP")
		case "ts=0":
			parts = append(parts, ".ts0")
		case "id":
			parts = append(parts, ".setId")
		case "cs":
			// the current-state variable is implicit in the tables
		case "act":
			parts = append(parts, fmt.Sprintf(".setAct %d", a.K))
		case "tk":
			n, ok := tokNum[a.Tk]
			if !ok {
				return "", fmt.Errorf("unknown token constant %s", a.Tk)
			}
			parts = append(parts, fmt.Sprintf(".setTk %d", n))
		case "byact":
			var ks []int
			for k := range a.Alt {
				ks = append(ks, k)
			}
			sort.Ints(ks)
			var alts []string
			for _, k := range ks {
				if nx := a.AltNext[k]; nx != "fall" && nx != "goto:_out" {
					return "", fmt.Errorf("unsupported continuation %q in switch act", nx)
				}
				sub, err := lxLeanActs(a.Alt[k], tokNum)
				if err != nil {
					return "", err
				}
				alts = append(alts, fmt.Sprintf("(%d, %s, %v)", k, sub, a.AltNext[k] == "goto:_out"))
			}
			parts = append(parts, ".byAct ["+strings.Join(alts, ", ")+"]")
		default:
			return "", fmt.Errorf("unknown action %s", a.Op)
		}
	}
	return "[" + strings.Join(parts, ", ") + "]", nil
}

func lxLeanNext(n string) (string, error) {
	switch {
	case n == "out":
		return ".out", nil
	case strings.HasPrefix(n, "st"):
		return ".st " + n[2:], nil
	case strings.HasPrefix(n, "case"):
		return ".caseSt " + n[4:], nil
	}
	return "", fmt.Errorf("unknown continuation %q", n)
}

func init() {
	extractors["lexer"] = func(outDir string) (err error) {
		defer func() {
			if p := recover(); p != nil {
				err = fmt.Errorf("lexer translator: %v", p)
			}
		}()
		lxFset = token.NewFileSet()
		lxLabelIdx = map[string]int{}
		f, err := parser.ParseFile(lxFset, filepath.Join(repoRoot(), "parser", "lexer.go"), nil, 0)
		if err != nil {
			return err
		}
		// token constants, in declaration order
		tokNum := map[string]int{}
		var tokNames []string
		for _, d := range f.Decls {
			gd, ok := d.(*ast.GenDecl)
			if !ok || gd.Tok != token.CONST || len(gd.Specs) == 0 {
				continue
			}
			first := gd.Specs[0].(*ast.ValueSpec)
			if len(first.Names) == 1 && first.Names[0].Name == "tkInvalid" {
				for i, sp := range gd.Specs {
					n := sp.(*ast.ValueSpec).Names[0].Name
					tokNum[n] = i
					tokNames = append(tokNames, n)
				}
			}
		}
		if len(tokNames) == 0 {
			return fmt.Errorf("token constants (tkInvalid …) not found")
		}
		var next *ast.FuncDecl
		for _, d := range f.Decls {
			if fd, ok := d.(*ast.FuncDecl); ok && fd.Name.Name == "next" && fd.Recv != nil {
				next = fd
			}
		}
		if next == nil {
			return fmt.Errorf("anchor lexer.next not found")
		}
		start := -1
		ast.Inspect(f, func(n ast.Node) bool {
			if vs, ok := n.(*ast.ValueSpec); ok && len(vs.Names) == 1 && vs.Names[0].Name == "lex_start" && len(vs.Values) == 1 {
				start, _ = strconv.Atoi(lxSrc(vs.Values[0]))
			}
			return true
		})
		if start < 0 {
			return fmt.Errorf("lex_start not found")
		}
		var blk *ast.BlockStmt
		startLabel := "st_case_" + strconv.Itoa(start)
		ast.Inspect(next, func(n ast.Node) bool {
			if b, ok := n.(*ast.BlockStmt); ok {
				for _, s := range b.List {
					if ls, ok := s.(*ast.LabeledStmt); ok && ls.Label.Name == startLabel {
						blk = b
					}
				}
			}
			return true
		})
		if blk == nil {
			return fmt.Errorf("goto block with %s not found", startLabel)
		}
		lxStmts = blk.List
		for i, s := range lxStmts {
			if ls, ok := s.(*ast.LabeledStmt); ok {
				lxLabelIdx[ls.Label.Name] = i
				if in, ok := ls.Stmt.(*ast.LabeledStmt); ok {
					lxLabelIdx[in.Label.Name] = i
				}
			}
		}
		var states []int
		for l := range lxLabelIdx {
			if strings.HasPrefix(l, "st_case_") {
				n, _ := strconv.Atoi(strings.TrimPrefix(l, "st_case_"))
				states = append(states, n)
			}
		}
		sort.Ints(states)
		maxState := states[len(states)-1]
		edgeKey := map[string]int{}
		var edges []lxEdge
		table := map[int][]int{}
		keyOf := func(e lxEdge) string { return fmt.Sprintf("%#v", e) }
		for _, st := range states {
			row := make([]int, 256)
			for c := 0; c < 256; c++ {
				en := &lxEnv{c: c}
				e := lxRun(lxLabelIdx["st_case_"+strconv.Itoa(st)], en)
				k := keyOf(e)
				id, ok := edgeKey[k]
				if !ok {
					id = len(edges)
					edgeKey[k] = id
					edges = append(edges, e)
				}
				row[c] = id
			}
			table[st] = row
		}
		eof := map[int]lxEdge{}
		eofIdx, ok := lxLabelIdx["_test_eof"]
		if !ok {
			return fmt.Errorf("_test_eof not found")
		}
		for i := eofIdx; i < len(lxStmts) && i < eofIdx+4; i++ {
			var ifs *ast.IfStmt
			switch x := lxStmts[i].(type) {
			case *ast.IfStmt:
				ifs = x
			case *ast.LabeledStmt:
				if y, ok := x.Stmt.(*ast.IfStmt); ok {
					ifs = y
				}
			}
			if ifs != nil && lxSrc(ifs.Cond) == "p == eof" {
				sw := ifs.Body.List[0].(*ast.SwitchStmt)
				for _, cc := range sw.Body.List {
					c := cc.(*ast.CaseClause)
					for _, e := range c.List {
						k, _ := strconv.Atoi(lxSrc(e))
						l := c.Body[0].(*ast.BranchStmt).Label.Name
						eof[k] = lxRun(lxLabelIdx[l], &lxEnv{c: -1})
					}
				}
			}
		}
		var sb strings.Builder
		sb.WriteString("/- GENERATED by `vh extract lexer` from /repo/parser/lexer.go — do not edit. -/\nimport CqlVerif.Model.LexTypes\nnamespace CqlVerif.Gen.Lex\nopen CqlVerif.LexTypes\n\n")
		fmt.Fprintf(&sb, "def start : Nat := %d\n\n", start)
		var tn []string
		for _, n := range tokNames {
			tn = append(tn, `"`+n+`"`)
		}
		fmt.Fprintf(&sb, "def tokenNames : List String := [%s]\n\n", strings.Join(tn, ", "))
		for i, n := range tokNames {
			fmt.Fprintf(&sb, "@[reducible] def %s : Nat := %d\n", n, i)
		}
		sb.WriteString("\n")
		for i, e := range edges {
			acts, err := lxLeanActs(e.Acts, tokNum)
			if err != nil {
				return err
			}
			nx, err := lxLeanNext(e.Next)
			if err != nil {
				return err
			}
			fmt.Fprintf(&sb, "def e%d : Edge := ⟨%s, %s⟩\n", i, acts, nx)
		}
		var en []string
		for i := range edges {
			en = append(en, fmt.Sprintf("e%d", i))
		}
		fmt.Fprintf(&sb, "\ndef edges : Array Edge := #[%s]\n\n", strings.Join(en, ", "))
		isState := map[int]bool{}
		for _, st := range states {
			isState[st] = true
			row := table[st]
			var rs []string
			lo := 0
			for c := 1; c <= 256; c++ {
				if c == 256 || row[c] != row[lo] {
					rs = append(rs, fmt.Sprintf("⟨%d, %d, %d⟩", lo, c-1, row[lo]))
					lo = c
				}
			}
			fmt.Fprintf(&sb, "def r%d : List Rng := [%s]\n", st, strings.Join(rs, ", "))
		}
		var rn, eo []string
		for st := 0; st <= maxState; st++ {
			if isState[st] {
				rn = append(rn, fmt.Sprintf("r%d", st))
			} else {
				rn = append(rn, "[]")
			}
			if e, ok := eof[st]; ok {
				acts, err := lxLeanActs(e.Acts, tokNum)
				if err != nil {
					return err
				}
				nx, err := lxLeanNext(e.Next)
				if err != nil {
					return err
				}
				fmt.Fprintf(&sb, "def eof%d : Edge := ⟨%s, %s⟩\n", st, acts, nx)
				eo = append(eo, fmt.Sprintf("some eof%d", st))
			} else {
				eo = append(eo, "none")
			}
		}
		fmt.Fprintf(&sb, "\ndef rows : Array (List Rng) := #[%s]\n\n", strings.Join(rn, ", "))
		fmt.Fprintf(&sb, "def eofs : Array (Option Edge) := #[%s]\n\nend CqlVerif.Gen.Lex\n", strings.Join(eo, ", "))
		return writeGen(outDir, "LexTables.lean", sb.String())
	}
}
