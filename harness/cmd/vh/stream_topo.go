package main

import (
	"bytes"
	"context"
	"fmt"
	"os"
	"os/exec"
	"sort"
	"strings"
	"sync"
	"time"

	"github.com/datastax/cql-proxy/proxycore"
	"github.com/datastax/go-cassandra-native-protocol/frame"
	"github.com/datastax/go-cassandra-native-protocol/message"
	"github.com/datastax/go-cassandra-native-protocol/primitive"
	"verifharness/internal/e2e"
	"verifharness/internal/fakecass"
	"verifharness/internal/rng"
)

// topo: the real Cluster + round-robin load balancer + Session(s), wired as Proxy.Connect wires them, with a short
// refresh window, against a fakecass cluster whose membership changes. Runs in a child process: a crash of a
// listener is an observation, not the end of the check.
// op:   H:<initial nodes> then actions
//         +          a node joins (listed, started) and the backend announces NEW_NODE
//         c          a node joins, and the backend goes on announcing changes every half window for 4.5 windows (probe follows at once)
//         -<i>       node i leaves (delisted, stopped) and the backend announces REMOVED_NODE
//         s:<ks>     a session for keyspace <ks> is opened ("missing…" does not exist: the session fails to connect)
//         f          the next topology query (system.peers) of the proxy is answered with an error, once
//         x          the control connection is dropped
//         w          wait for the refresh window / reconnection
//         p          probe: hosts of a new query plan, and for each listed node whether the first session can send to it
// real: one token per p:  lb=<sorted hosts>/sess=<sorted hosts that accepted a request>/out=<0|1 outage reported> ; or crash:<reason>

func init() {
	streams["topo"] = stream{gen: genTopo, run: runTopoParent}
	commands["topo-child"] = func(args []string) int {
		fmt.Println(runTopoChild(strings.Join(args, " ")))
		return 0
	}
}

func runTopoParent(op string) string {
	ctx, cancel := context.WithTimeout(context.Background(), 40*time.Second)
	defer cancel()
	cmd := exec.CommandContext(ctx, os.Args[0], append([]string{"topo-child"}, strings.Fields(op)...)...)
	var stdout, stderr bytes.Buffer
	cmd.Stdout, cmd.Stderr = &stdout, &stderr
	err := cmd.Run()
	if err != nil {
		reason := "exit"
		for _, l := range strings.Split(stderr.String(), "\n") {
			if strings.HasPrefix(l, "panic:") || strings.HasPrefix(l, "fatal error:") {
				reason = strings.ReplaceAll(strings.TrimSpace(l), " ", "_")
				if len(reason) > 120 {
					reason = reason[:120]
				}
				break
			}
		}
		if ctx.Err() != nil {
			reason = "timeout"
		}
		return strings.TrimSpace(stdout.String() + " crash:" + reason)
	}
	return strings.TrimSpace(stdout.String())
}

type probeReq struct {
	frm  *frame.Frame
	done chan string
	once sync.Once
}

func (r *probeReq) Frame() interface{}       { return r.frm }
func (r *probeReq) IsPrepareRequest() bool   { return false }
func (r *probeReq) Execute(bool)             {}
func (r *probeReq) OnClose(error)            { r.once.Do(func() { r.done <- "closed" }) }
func (r *probeReq) OnResult(*frame.RawFrame) { r.once.Do(func() { r.done <- "ok" }) }

func runTopoChild(op string) string {
	toks := strings.Fields(op)
	n := 2
	var acts []string
	for _, t := range toks {
		if strings.HasPrefix(t, "H:") {
			fmt.Sscan(t[2:], &n)
		} else {
			acts = append(acts, t)
		}
	}
	subnet := 1 + os.Getpid()%250
	ipOf := func(i int) string { return fmt.Sprintf("127.%d.1.%d", subnet, i+1) }
	port, err := e2e.FreePort(ipOf(0))
	if err != nil {
		return "env-error:" + err.Error()
	}
	cl := fakecass.NewCluster(port)
	var nodes []string // index -> ip (indices are never reused)
	for i := 0; i < n; i++ {
		if _, err := cl.AddNode(ipOf(i), "dc1"); err != nil {
			return "env-error:" + err.Error()
		}
		nodes = append(nodes, ipOf(i))
	}
	cl.MissingKeyspaces["missing"] = true
	cl.MissingKeyspaces["missing2"] = true
	name := func(key string) string {
		for i, ip := range nodes {
			if strings.HasPrefix(key, ip+":") {
				return fmt.Sprintf("h%d", i)
			}
		}
		return "h?"
	}
	ctx, cancel := context.WithCancel(context.Background())
	defer cancel()
	const window = 40 * time.Millisecond
	cluster, err := proxycore.ConnectCluster(ctx, proxycore.ClusterConfig{
		Version:           primitive.ProtocolVersion4,
		Resolver:          proxycore.NewResolverWithDefaultPort([]string{ipOf(0)}, port),
		ReconnectPolicy:   proxycore.NewReconnectPolicyWithDelays(5*time.Millisecond, 20*time.Millisecond),
		RefreshWindow:     window,
		HeartBeatInterval: time.Hour, ConnectTimeout: 2 * time.Second, IdleTimeout: 2 * time.Hour,
	})
	if err != nil {
		return "connect-error:" + err.Error()
	}
	lb := proxycore.NewRoundRobinLoadBalancer()
	if err := cluster.Listen(lb); err != nil {
		return "listen-error"
	}
	scfg := proxycore.SessionConfig{ReconnectPolicy: proxycore.NewReconnectPolicyWithDelays(5*time.Millisecond, 20*time.Millisecond),
		NumConns: 1, Version: primitive.ProtocolVersion4, ConnectTimeout: 2 * time.Second, HeartBeatInterval: time.Hour, IdleTimeout: 2 * time.Hour}
	sess, err := proxycore.ConnectSession(ctx, cluster, scfg)
	if err != nil {
		return "session-error:" + err.Error()
	}
	var res []string
	for _, a := range acts {
		switch {
		case a == "+":
			i := len(nodes)
			ip := ipOf(i)
			nodes = append(nodes, ip)
			if _, err := cl.AddNode(ip, "dc1"); err != nil {
				return "addnode-error"
			}
			cl.Event(&message.TopologyChangeEvent{ChangeType: primitive.TopologyChangeTypeNewNode, Address: &primitive.Inet{Addr: netIP(ip), Port: int32(port)}})
		case a == "c":
			// a node joins, and for the next four and a half refresh windows the backend keeps announcing changes at
			// intervals of half a window: the refresh that the first announcement asked for must not be put off by them
			i := len(nodes)
			ip := ipOf(i)
			nodes = append(nodes, ip)
			if _, err := cl.AddNode(ip, "dc1"); err != nil {
				return "addnode-error"
			}
			cl.Event(&message.TopologyChangeEvent{ChangeType: primitive.TopologyChangeTypeNewNode, Address: &primitive.Inet{Addr: netIP(ip), Port: int32(port)}})
			for j := 0; j < 8; j++ {
				time.Sleep(window / 2)
				if j%2 == 0 {
					cl.Event(&message.StatusChangeEvent{ChangeType: primitive.StatusChangeTypeUp, Address: &primitive.Inet{Addr: netIP(nodes[0]), Port: int32(port)}})
				} else {
					cl.Event(&message.TopologyChangeEvent{ChangeType: primitive.TopologyChangeTypeNewNode, Address: &primitive.Inet{Addr: netIP(ip), Port: int32(port)}})
				}
			}
			time.Sleep(window / 2)
		case strings.HasPrefix(a, "-"):
			var i int
			fmt.Sscan(a[1:], &i)
			if i < len(nodes) && i > 0 { // node 0 carries the first control connection: it stays
				cl.Delist(nodes[i])
				cl.Node(nodes[i]).Stop()
				cl.Event(&message.TopologyChangeEvent{ChangeType: primitive.TopologyChangeTypeRemovedNode, Address: &primitive.Inet{Addr: netIP(nodes[i]), Port: int32(port)}})
			}
		case strings.HasPrefix(a, "s:"):
			c2 := scfg
			c2.Keyspace = a[2:]
			_, err := proxycore.ConnectSession(ctx, cluster, c2)
			if err != nil {
				res = append(res, "sessfail")
			} else {
				res = append(res, "sessok")
			}
		case a == "f":
			var once sync.Once
			cl.SystemHandler = func(c *fakecass.Conn, q string) (fakecass.Response, bool) {
				if strings.Contains(q, "system.peers") {
					failed := false
					once.Do(func() { failed = true })
					if failed {
						return fakecass.Response{Kind: fakecass.RespMsg, Msg: &message.ServerError{ErrorMessage: "peers unavailable"}}, true
					}
				}
				return fakecass.Response{}, false
			}
		case a == "x":
			for _, ip := range cl.NodeIPs() {
				cl.Node(ip).DropConns(func(c interface{ Registered() bool }) bool { return c.Registered() })
			}
		case a == "w":
			time.Sleep(4 * window)
			for i := 0; i < 100 && cluster.OutageDuration() != 0; i++ { // wait for the control connection to come back
				time.Sleep(10 * time.Millisecond)
			}
			time.Sleep(window)
		case a == "p":
			plan := lb.NewQueryPlan()
			var lbHosts []string
			var hosts []*proxycore.Host
			for h := plan.Next(); h != nil; h = plan.Next() {
				lbHosts = append(lbHosts, name(h.Key()))
				hosts = append(hosts, h)
			}
			sort.Strings(lbHosts)
			var okHosts []string
			for _, h := range hosts {
				rq := &probeReq{frm: frame.NewFrame(primitive.ProtocolVersion4, 0, &message.Query{Query: "SELECT x FROM ks.t", Options: &message.QueryOptions{Consistency: primitive.ConsistencyLevelOne}}), done: make(chan string, 1)}
				if err := sess.Send(h, rq); err != nil {
					continue
				}
				select {
				case r := <-rq.done:
					if r == "ok" {
						okHosts = append(okHosts, name(h.Key()))
					}
				case <-time.After(time.Second):
				}
			}
			sort.Strings(okHosts)
			out := "0"
			if cluster.OutageDuration() != 0 {
				out = "1"
			}
			res = append(res, fmt.Sprintf("lb=%s/sess=%s/out=%s", strings.Join(lbHosts, ","), strings.Join(okHosts, ","), out))
		}
	}
	return strings.Join(res, " ")
}

func netIP(s string) []byte {
	var a, b, c, d int
	fmt.Sscanf(s, "%d.%d.%d.%d", &a, &b, &c, &d)
	return []byte{byte(a), byte(b), byte(c), byte(d)}
}

func genTopo(e *emitter, r *rng.R, n int, tier string) {
	ops := []string{
		"H:2 p + w p -1 w p",
		"H:3 s:app p -2 w p + w p",
		"H:2 s:missing p -1 w p",
		"H:2 p x w p + w p x w p",
		"H:2 p + x w p + w p",          // the control connection is lost while a refresh is pending
		"H:2 p f + w p + w p",          // the refresh after a change fails once: the change must still be followed
		"H:3 p f -1 w p + w p",
		"H:3 p -1 x w p + w p -2 w p",
		"H:2 p + + x w p -1 w p + w p",
		"H:2 p c p",
		"H:3 p c p -1 w p c p",
		"H:1 c p x w p",
	}
	defer func() { e.emitAll(ops, 8) }()
	for i := 0; i < n; i++ {
		rr := r.Fork(uint64(i))
		h := 1 + rr.Intn(3)
		parts := []string{fmt.Sprintf("H:%d", h)}
		total := h
		for j := 0; j < 2+rr.Intn(6); j++ {
			switch c := rr.Intn(10); {
			case c < 3 && total < 5:
				total++
				if rr.Intn(3) == 0 { // a change announced, and the control connection lost inside the refresh window
					parts = append(parts, "+", "x", "w", "p")
				} else {
					parts = append(parts, "+", "w", "p")
				}
			case c < 5 && total > 1:
				if rr.Intn(3) == 0 {
					parts = append(parts, fmt.Sprintf("-%d", 1+rr.Intn(total-1)), "x", "w", "p")
				} else {
					parts = append(parts, fmt.Sprintf("-%d", 1+rr.Intn(total-1)), "w", "p")
				}
			case c < 6 && rr.Intn(3) == 0 && total < 5:
				total++
				parts = append(parts, "f", "+", "w", "p")
			case c < 6:
				parts = append(parts, "s:"+rr.Pick([]string{"app", "missing", "other", "missing2"}))
			case c < 7 && total < 5 && rr.Intn(2) == 0:
				total++
				parts = append(parts, "c", "p")
			case c < 8:
				parts = append(parts, "x", "w", "p")
			default:
				parts = append(parts, "p")
			}
		}
		ops = append(ops, strings.Join(parts, " "))
	}
}
