package main

import (
	"bytes"
	"context"
	"fmt"
	"os"
	"os/exec"
	"path/filepath"
	"regexp"
	"sort"
	"strconv"
	"strings"
	"sync"
	"sync/atomic"
	"time"

	"github.com/datastax/cql-proxy/proxy"
	"github.com/datastax/cql-proxy/proxycore"
	"github.com/datastax/go-cassandra-native-protocol/message"
	"github.com/datastax/go-cassandra-native-protocol/primitive"
	"verifharness/internal/e2e"
	"verifharness/internal/fakecass"
	"verifharness/internal/rng"
)

// race: genuinely concurrent scenarios through the real proxy built with the race detector (`vh-race`, next to
// this binary). Every scenario runs in a child process with many clients on all cores; the happens-before race
// detector's reports are the observation.
// op:   N:<clients> S:<seed> D:<milliseconds> F:<families, comma separated>
//         hs     pipelined OPTIONS / STARTUP (with and without compression) on fresh connections
//         use    USE of new and known keyspaces from many clients at once, with forwarded queries
//         prep   PREPARE / EXECUTE with backends answering UNPREPARED now and then
//         loss   backend connections dropped under load
//         topo   nodes delisted / relisted / stopped / started with topology events
//         ev     schema events with clients registering and disconnecting
// real: none | the racing pairs, each as <access site>~<access site> (function names inside cql-proxy, sorted)
//       [crash:<reason>]

func init() {
	streams["race"] = stream{gen: genRace, run: runRaceParent}
	commands["race-child"] = func(args []string) int {
		fmt.Println(runRaceChild(strings.Join(args, " ")))
		return 0
	}
}

var raceFrame = regexp.MustCompile(`^\s+(github\.com/datastax/cql-proxy/[^\s(]+(?:\([^)]*\))?[^\s(]*)\(`)

// raceKeys turns race-detector reports into canonical pairs of access sites: for each of the two accesses, the
// innermost frame that lies in cql-proxy (library frames above it are the shared object's methods).
func raceKeys(logs string) []string {
	keys := map[string]bool{}
	for _, rep := range strings.Split(logs, "WARNING: DATA RACE")[1:] {
		if i := strings.Index(rep, "=================="); i >= 0 {
			rep = rep[:i]
		}
		var sites []string
		for _, blk := range strings.Split(strings.TrimSpace(rep), "\n\n") {
			lines := strings.Split(blk, "\n")
			head := strings.TrimSpace(lines[0])
			if !(strings.HasPrefix(head, "Read at") || strings.HasPrefix(head, "Write at") || strings.HasPrefix(head, "Previous read") || strings.HasPrefix(head, "Previous write") ||
				strings.HasPrefix(head, "Atomic") || strings.HasPrefix(head, "Previous atomic")) {
				continue
			}
			site := "?"
			for _, l := range lines[1:] {
				if m := raceFrame.FindStringSubmatch(l); m != nil {
					site = strings.TrimPrefix(m[1], "github.com/datastax/cql-proxy/")
					break
				}
			}
			sites = append(sites, site)
		}
		if len(sites) >= 2 && !(sites[0] == "?" && sites[1] == "?") { // a race with no frame in cql-proxy is the harness's own
			a, b := sites[0], sites[1]
			if b < a {
				a, b = b, a
			}
			keys[a+"~"+b] = true
		}
	}
	var out []string
	for k := range keys {
		out = append(out, k)
	}
	sort.Strings(out)
	return out
}

func runRaceParent(op string) string {
	bin := os.Getenv("VH_RACE_BIN")
	if bin == "" {
		bin = filepath.Join(filepath.Dir(os.Args[0]), "vh-race")
	}
	if _, err := os.Stat(bin); err != nil {
		return "no-race-binary"
	}
	dir, err := os.MkdirTemp("", "vhrace")
	if err != nil {
		return "env-error"
	}
	defer os.RemoveAll(dir)
	ctx, cancel := context.WithTimeout(context.Background(), 120*time.Second)
	defer cancel()
	cmd := exec.CommandContext(ctx, bin, append([]string{"race-child"}, strings.Fields(op)...)...)
	cmd.Env = append(os.Environ(), "GORACE=halt_on_error=0 history_size=3 log_path="+filepath.Join(dir, "r"))
	var stdout, stderr bytes.Buffer
	cmd.Stdout, cmd.Stderr = &stdout, &stderr
	runErr := cmd.Run()
	var logs strings.Builder
	files, _ := filepath.Glob(filepath.Join(dir, "r.*"))
	for _, f := range files {
		b, _ := os.ReadFile(f)
		logs.Write(b)
	}
	keys := raceKeys(logs.String())
	res := "none"
	if len(keys) > 0 {
		res = strings.Join(keys, " ")
	}
	child := strings.TrimSpace(stdout.String())
	if runErr != nil && !strings.Contains(stderr.String(), "exit status 66") {
		reason := ""
		for _, l := range strings.Split(stderr.String(), "\n") {
			if strings.HasPrefix(l, "panic:") || strings.HasPrefix(l, "fatal error:") {
				reason = strings.ReplaceAll(strings.TrimSpace(l), " ", "_")
				break
			}
		}
		if ctx.Err() != nil {
			reason = "timeout"
		}
		if reason != "" {
			res += " crash:" + reason
		}
	}
	if child != "" && child != "done" {
		res += " child:" + strings.ReplaceAll(child, " ", "_")
	}
	return res
}

func runRaceChild(op string) string {
	n, seed, dur := 8, uint64(1), 1200
	fams := map[string]bool{}
	for _, t := range strings.Fields(op) {
		switch {
		case strings.HasPrefix(t, "N:"):
			n, _ = strconv.Atoi(t[2:])
		case strings.HasPrefix(t, "S:"):
			s, _ := strconv.Atoi(t[2:])
			seed = uint64(s)
		case strings.HasPrefix(t, "D:"):
			dur, _ = strconv.Atoi(t[2:])
		case strings.HasPrefix(t, "F:"):
			for _, f := range strings.Split(t[2:], ",") {
				fams[f] = true
			}
		}
	}
	// the proxy is configured as a deployment would be: an advertised address, peers, a write-consistency override
	env, err := e2e.Start(e2e.Options{Hosts: 3, NumConns: 2, MaxVersion: primitive.ProtocolVersion4, ReconnectBase: 10 * time.Millisecond, ReconnectMax: 40 * time.Millisecond,
		HeartBeat: 50 * time.Millisecond, IdleTimeout: 2 * time.Second, RPCAddr: "127.0.0.1", HasOverride: true, Unsupported: []uint16{4, 8}, Override: 6})
	if err != nil {
		return "env-error:" + err.Error()
	}
	defer env.Close()
	var unprep int32
	env.Cluster.Handler = func(rq *fakecass.Request) fakecass.Response {
		switch rq.Header.OpCode {
		case primitive.OpCodePrepare:
			return fakecass.Response{Kind: fakecass.RespMsg, Msg: &message.PreparedResult{PreparedQueryId: []byte("0123456789abcdef"), ResultMetadataId: []byte("0123456789abcdef")}}
		case primitive.OpCodeExecute:
			if fams["prep"] && atomic.AddInt32(&unprep, 1)%5 == 0 {
				return fakecass.Response{Kind: fakecass.RespMsg, Msg: &message.Unprepared{ErrorMessage: "unprepared", Id: []byte("0123456789abcdef")}}
			}
		}
		return fakecass.Response{Kind: fakecass.RespMsg, Msg: &message.VoidResult{}}
	}
	deadline := time.Now().Add(time.Duration(dur) * time.Millisecond)
	alive := func() bool { return time.Now().Before(deadline) }
	opts := &message.QueryOptions{Consistency: primitive.ConsistencyLevelOne}
	var wg sync.WaitGroup
	drain := func(c *e2e.Client, k int) {
		for i := 0; i < k; i++ {
			if _, err := c.Recv(400 * time.Millisecond); err != nil {
				return
			}
		}
	}
	for i := 0; i < n; i++ {
		wg.Add(1)
		go func(i int) {
			defer wg.Done()
			rr := rng.New(seed*7919 + uint64(i))
			for round := 0; alive(); round++ {
				comp := ""
				if rr.Intn(3) == 0 {
					comp = rr.Pick([]string{"lz4", "snappy"})
				}
				var c *e2e.Client
				if fams["hs"] && rr.Intn(2) == 0 {
					// pipelined handshake: OPTIONS frames and STARTUP in one write
					raw, err := e2e.DialRaw(env.Addr)
					if err != nil {
						continue
					}
					var b []byte
					for k := 0; k < 1+rr.Intn(6); k++ {
						x, _ := raw.Encode(int16(k+1), &message.Options{}, nil)
						b = append(b, x...)
					}
					o := map[string]string{"CQL_VERSION": "3.0.0"}
					if comp != "" {
						o["COMPRESSION"] = comp
					}
					x, _ := raw.Encode(50, &message.Startup{Options: o}, nil)
					b = append(b, x...)
					_ = raw.WriteBytes(b)
					raw.Compression = "" // replies to the frames above are not compressed
					drain(raw, 8)
					raw.Compression = comp
					c = raw
				} else {
					var err error
					c, err = env.Dial(primitive.ProtocolVersion4, comp)
					if err != nil {
						time.Sleep(5 * time.Millisecond)
						continue
					}
				}
				st := int16(100)
				for k := 0; k < 6+rr.Intn(20) && alive(); k++ {
					st++
					var m message.Message
					switch x := rr.Intn(12); {
					case x < 2 && fams["use"]:
						m = &message.Query{Query: fmt.Sprintf("USE ks%d", rr.Intn(12)+round%3*12), Options: opts}
					case x < 4 && fams["prep"]:
						m = &message.Prepare{Query: fmt.Sprintf("SELECT v FROM ks.t%d WHERE k = ?", rr.Intn(3))}
					case x < 7 && fams["prep"]:
						m = &message.Execute{QueryId: []byte("0123456789abcdef"), Options: opts}
					case x == 7 && fams["ev"]:
						m = &message.Register{EventTypes: []primitive.EventType{primitive.EventTypeSchemaChange}}
					case x == 8:
						m = &message.Query{Query: "SELECT * FROM system.peers", Options: opts}
					case x == 9:
						m = &message.Query{Query: "INSERT INTO ks.t (k, v) VALUES (1, now())", Options: opts}
					case x == 10: // a write at a consistency the override rewrites, and a local read
						m = &message.Query{Query: fmt.Sprintf("INSERT INTO ks.t (k, v) VALUES (%d, 'some value of some length %d')", k, k), Options: &message.QueryOptions{Consistency: primitive.ConsistencyLevelQuorum}}
					case x == 11:
						m = &message.Query{Query: "SELECT rpc_address, host_id, data_center FROM system.local", Options: opts}
					default:
						m = &message.Query{Query: "SELECT v FROM ks.t WHERE k = 1", Options: opts}
					}
					if c.Send(st, m) != nil {
						break
					}
					if rr.Intn(3) > 0 {
						drain(c, 1)
					}
				}
				drain(c, 4)
				c.Close()
			}
		}(i)
	}
	// the environment misbehaving alongside
	wg.Add(1)
	go func() {
		defer wg.Done()
		rr := rng.New(seed ^ 0xabcdef)
		k := 0
		for alive() {
			time.Sleep(time.Duration(5+rr.Intn(25)) * time.Millisecond)
			ip := env.IPs[rr.Intn(len(env.IPs))]
			node := env.Cluster.Node(ip)
			k++
			_ = env.Proxy.OutageDuration() // what the readiness probe asks, from its own goroutine
			switch x := rr.Intn(10); {
			case x < 2 && fams["loss"]:
				node.DropConns(nil)
			case x < 4 && fams["loss"]:
				// the control connection alone (wherever it is): the cluster goroutine reconnects while clients are being served
				for _, nip := range env.IPs {
					env.Cluster.Node(nip).DropConns(func(c interface{ Registered() bool }) bool { return c.Registered() })
				}
			case x < 5 && fams["topo"]:
				if ip != env.IPs[0] {
					env.Cluster.Delist(ip)
					env.Cluster.Event(&message.TopologyChangeEvent{ChangeType: primitive.TopologyChangeTypeRemovedNode, Address: &primitive.Inet{Addr: netIP(ip), Port: 9042}})
					time.Sleep(time.Duration(10+rr.Intn(30)) * time.Millisecond)
					env.Cluster.Relist(ip)
					env.Cluster.Event(&message.TopologyChangeEvent{ChangeType: primitive.TopologyChangeTypeNewNode, Address: &primitive.Inet{Addr: netIP(ip), Port: 9042}})
				}
			case x < 7 && fams["topo"] && rr.Intn(2) == 0:
				// the events a topology refresh produces, delivered as the cluster goroutine delivers them, while
				// clients are walking query plans: a host that is not the last of the list leaves and comes back
				h := &proxycore.Host{Endpoint: proxycore.NewEndpoint(fmt.Sprintf("%s:%d", env.IPs[rr.Intn(len(env.IPs)-1)], env.Cluster.Port)), DC: "dc1"}
				proxy.VerifDeliverClusterEvent(env.Proxy, &proxycore.RemoveEvent{Host: h})
				time.Sleep(time.Duration(1+rr.Intn(8)) * time.Millisecond)
				proxy.VerifDeliverClusterEvent(env.Proxy, &proxycore.AddEvent{Host: h})
			case x < 6 && fams["topo"]:
				if ip != env.IPs[0] {
					node.Stop()
					time.Sleep(time.Duration(10+rr.Intn(30)) * time.Millisecond)
					_ = node.Start()
				}
			case x < 9 && fams["ev"]:
				env.Cluster.Event(schemaEvent(k, rr.Pick([]string{"K", "T", "Y", "F", "A"})))
			case fams["topo"] || fams["ev"]:
				env.Cluster.Event(&message.StatusChangeEvent{ChangeType: primitive.StatusChangeTypeUp, Address: &primitive.Inet{Addr: netIP(ip), Port: 9042}})
			}
		}
	}()
	wg.Wait()
	return "done"
}

func genRace(e *emitter, r *rng.R, n int, tier string) {
	var ops []string
	defer func() { e.emitAll(ops, 2) }() // each scenario uses all cores itself
	fams := []string{"hs", "use", "prep", "loss", "topo", "ev"}
	dur := 1200
	if tier == "thorough" {
		dur = 4000
	}
	// every family on its own, then all together, then random subsets
	for i, f := range fams {
		ops = append(ops, fmt.Sprintf("N:16 S:%d D:%d F:%s", i+1, dur, f))
	}
	ops = append(ops, fmt.Sprintf("N:24 S:99 D:%d F:%s", dur, strings.Join(fams, ",")))
	for i := 0; i < n; i++ {
		rr := r.Fork(uint64(i))
		var fs []string
		for _, f := range fams {
			if rr.Intn(2) == 0 {
				fs = append(fs, f)
			}
		}
		if len(fs) == 0 {
			fs = []string{"use", "loss"}
		}
		ops = append(ops, fmt.Sprintf("N:%d S:%d D:%d F:%s", 8+rr.Intn(24), 1000+i, dur, strings.Join(fs, ",")))
	}
}

func init() {
	// racekeys <log files...>: the canonical racing pairs in race-detector logs
	commands["racekeys"] = func(args []string) int {
		var sb strings.Builder
		for _, f := range args {
			b, _ := os.ReadFile(f)
			sb.Write(b)
		}
		for _, k := range raceKeys(sb.String()) {
			fmt.Println(k)
		}
		return 0
	}
}
