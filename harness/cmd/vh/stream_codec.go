package main

import (
	"bytes"
	"encoding/hex"
	"fmt"
	"strings"

	"github.com/datastax/cql-proxy/codecs"
	"github.com/datastax/go-cassandra-native-protocol/frame"
	"github.com/datastax/go-cassandra-native-protocol/message"
	"github.com/datastax/go-cassandra-native-protocol/primitive"
	"verifharness/internal/rng"
)

// codec: the proxy's partial QUERY / EXECUTE / BATCH codecs against the reference codec, on message bodies.
// op:   V:<version> O:<opcode 7|10|13> [E:<header flags>:<hex of what precedes the message in the frame body>] <hex body>
//       with E: the body is decoded the way proxy.go does it - CustomRawCodec.DecodeBody over a FrameBodyReader of
//       the whole frame body (custom payload first) - instead of calling the message codec directly
// real: part=<ok:fields|err> re=<hex of the partial message re-encoded|-> ref=<ok:fields|err>
//       fields:  q=<hex query> | id=<hex> rm=<hex> ; c=<consistency> ; batch: t=<type> n=<children> ch=<kind:hex,...>

func init() { streams["codec"] = stream{gen: genCodec, run: runCodec} }

var refMsgCodecs = map[primitive.OpCode]message.Codec{}

func init() {
	for _, c := range message.DefaultMessageCodecs {
		refMsgCodecs[c.GetOpCode()] = c
	}
}

func partialCodecFor(op primitive.OpCode) message.Codec {
	for _, c := range codecs.CustomMessageCodecs {
		if c.GetOpCode() == op {
			return c
		}
	}
	return nil
}

func runCodec(op string) (out string) {
	defer func() {
		if p := recover(); p != nil {
			out = fmt.Sprintf("panic:%v", strings.ReplaceAll(fmt.Sprint(p), " ", "_"))
		}
	}()
	var v, o int
	var body, prefix []byte
	envFlags, env := 0, false
	for _, t := range strings.Fields(op) {
		switch {
		case strings.HasPrefix(t, "E:"):
			p := strings.SplitN(t[2:], ":", 2)
			fmt.Sscan(p[0], &envFlags)
			if len(p) > 1 {
				prefix, _ = hex.DecodeString(p[1])
			}
			env = true
		case strings.HasPrefix(t, "M:"):
		case strings.HasPrefix(t, "V:"):
			fmt.Sscan(t[2:], &v)
		case strings.HasPrefix(t, "O:"):
			fmt.Sscan(t[2:], &o)
		default:
			body, _ = hex.DecodeString(t)
		}
	}
	version := primitive.ProtocolVersion(v)
	opcode := primitive.OpCode(o)
	pc := partialCodecFor(opcode)
	part, re := "err", "-"
	decode := func() (message.Message, error) {
		if !env {
			return pc.Decode(codecs.NewFrameBodyReader(body), version)
		}
		whole := append(append([]byte{}, prefix...), body...)
		hdr := &frame.Header{Version: version, Flags: primitive.HeaderFlag(envFlags), StreamId: 1, OpCode: opcode, BodyLength: int32(len(whole))}
		b, err := codecs.CustomRawCodec.DecodeBody(hdr, codecs.NewFrameBodyReader(whole))
		if err != nil {
			return nil, err
		}
		return b.Message, nil
	}
	if msg, err := decode(); err == nil {
		switch m := msg.(type) {
		case *codecs.PartialQuery:
			part = fmt.Sprintf("ok:q=%s;c=%d", hex.EncodeToString([]byte(m.Query)), m.Consistency)
		case *codecs.PartialExecute:
			part = fmt.Sprintf("ok:id=%s;rm=%s;c=%d", hex.EncodeToString(m.QueryId), hex.EncodeToString(m.ResultMetadataId), m.Consistency)
		case *codecs.PartialBatch:
			var ch []string
			for _, q := range m.Queries {
				switch x := q.QueryOrId.(type) {
				case string:
					ch = append(ch, "0:"+hex.EncodeToString([]byte(x)))
				case []byte:
					ch = append(ch, "1:"+hex.EncodeToString(x))
				}
			}
			part = fmt.Sprintf("ok:t=%d;n=%d;ch=%s;c=%d", m.Type, len(m.Queries), strings.Join(ch, ","), m.Consistency)
		}
		var buf bytes.Buffer
		if err := pc.Encode(msg, &buf, version); err == nil {
			re = hex.EncodeToString(buf.Bytes())
			if n, err := pc.EncodedLength(msg, version); err != nil || n != buf.Len() {
				re += "!len"
			}
		} else {
			re = "encode-error"
		}
	}
	ref := "err"
	if strings.Contains(op, "M:1") && len(body)%7 != 0 {
		// malformed-stream case: the reference decoder allocates whatever a mutated [bytes] length says (up to 2 GiB)
		// before it fails; it is consulted on a sample of these cases only
		ref = "skip"
	} else if msg, err := refMsgCodecs[opcode].Decode(bytes.NewBuffer(body), version); err == nil {
		switch m := msg.(type) {
		case *message.Query:
			ref = fmt.Sprintf("ok:q=%s;c=%d", hex.EncodeToString([]byte(m.Query)), m.Options.Consistency)
		case *message.Execute:
			ref = fmt.Sprintf("ok:id=%s;rm=%s;c=%d", hex.EncodeToString(m.QueryId), hex.EncodeToString(m.ResultMetadataId), m.Options.Consistency)
		case *message.Batch:
			var ch []string
			for _, c := range m.Children {
				if c.Id != nil {
					ch = append(ch, "1:"+hex.EncodeToString(c.Id))
				} else {
					ch = append(ch, "0:"+hex.EncodeToString([]byte(c.Query)))
				}
			}
			ref = fmt.Sprintf("ok:t=%d;n=%d;ch=%s;c=%d", m.Type, len(m.Children), strings.Join(ch, ","), m.Consistency)
		}
	}
	return fmt.Sprintf("part=%s re=%s ref=%s", part, re, ref)
}

var codecVersions = []primitive.ProtocolVersion{3, 4, 5, 65, 66}

func genValue(r *rng.R) *primitive.Value {
	switch r.Intn(6) {
	case 0:
		return primitive.NewNullValue()
	case 1:
		return primitive.NewUnsetValue()
	case 2:
		return primitive.NewValue([]byte{})
	}
	return primitive.NewValue(r.Bytes(r.Intn(20)))
}

func genQueryOptions(r *rng.R, v primitive.ProtocolVersion) *message.QueryOptions {
	cls := []primitive.ConsistencyLevel{0, 1, 2, 3, 4, 5, 6, 7, 8, 9, 10}
	o := &message.QueryOptions{Consistency: cls[r.Intn(len(cls))]}
	if r.Bool() {
		if r.Chance(1, 3) {
			o.NamedValues = map[string]*primitive.Value{}
			for i := 0; i < 1+r.Intn(3); i++ {
				o.NamedValues[fmt.Sprintf("n%d", i)] = genValue(r)
			}
		} else {
			for i := 0; i < r.Intn(4); i++ {
				o.PositionalValues = append(o.PositionalValues, genValue(r))
			}
		}
	}
	o.SkipMetadata = r.Bool()
	if r.Bool() {
		o.PageSize = int32(r.Intn(5000))
	}
	if r.Chance(1, 3) {
		o.PagingState = r.Bytes(r.Intn(30))
	}
	if r.Chance(1, 3) {
		sc := []primitive.ConsistencyLevel{8, 9}[r.Intn(2)]
		o.SerialConsistency = &sc
	}
	if r.Chance(1, 3) {
		ts := int64(r.U64() >> 4)
		o.DefaultTimestamp = &ts
	}
	if v == primitive.ProtocolVersion5 || v == primitive.ProtocolVersionDse2 {
		if r.Chance(1, 3) {
			o.Keyspace = "ks" + fmt.Sprint(r.Intn(9))
		}
	}
	if v == primitive.ProtocolVersion5 && r.Chance(1, 3) {
		ns := int32(r.Intn(1 << 30))
		o.NowInSeconds = &ns
	}
	if (v == primitive.ProtocolVersionDse1 || v == primitive.ProtocolVersionDse2) && r.Chance(1, 3) {
		o.ContinuousPagingOptions = &message.ContinuousPagingOptions{MaxPages: int32(r.Intn(10)), PagesPerSecond: int32(r.Intn(10))}
		if v == primitive.ProtocolVersionDse2 {
			o.ContinuousPagingOptions.NextPages = int32(r.Intn(5))
		}
		if o.PageSize == 0 {
			o.PageSize = 100
		}
	}
	return o
}

func genRefMessage(r *rng.R, v primitive.ProtocolVersion) (primitive.OpCode, message.Message) {
	switch r.Intn(3) {
	case 0:
		qs := []string{"SELECT * FROM t", "INSERT INTO ks.t (k, v) VALUES (?, ?)", "", "é µ \x00 long " + strings.Repeat("x", r.Intn(300)), genStatement(r, 2).text}
		return primitive.OpCodeQuery, &message.Query{Query: qs[r.Intn(len(qs))], Options: genQueryOptions(r, v)}
	case 1:
		m := &message.Execute{QueryId: r.Bytes(1 + r.Intn(20)), Options: genQueryOptions(r, v)}
		if v == primitive.ProtocolVersion5 || v == primitive.ProtocolVersionDse2 {
			m.ResultMetadataId = r.Bytes(1 + r.Intn(20))
		}
		return primitive.OpCodeExecute, m
	default:
		m := &message.Batch{Type: []primitive.BatchType{0, 1, 2}[r.Intn(3)], Consistency: primitive.ConsistencyLevel(r.Intn(11))}
		for i := 0; i < r.Intn(5); i++ {
			c := &message.BatchChild{}
			if r.Bool() {
				c.Query = genStatement(r, 1).text
			} else {
				c.Id = r.Bytes(1 + r.Intn(18))
			}
			for j := 0; j < r.Intn(4); j++ {
				c.Values = append(c.Values, genValue(r))
			}
			m.Children = append(m.Children, c)
		}
		if r.Chance(1, 3) {
			sc := primitive.ConsistencyLevel(8)
			m.SerialConsistency = &sc
		}
		if r.Chance(1, 3) {
			ts := int64(r.U64() >> 4)
			m.DefaultTimestamp = &ts
		}
		if (v == primitive.ProtocolVersion5 || v == primitive.ProtocolVersionDse2) && r.Chance(1, 3) {
			m.Keyspace = "ks1"
		}
		if v == primitive.ProtocolVersion5 && r.Chance(1, 4) {
			ns := int32(12345)
			m.NowInSeconds = &ns
		}
		return primitive.OpCodeBatch, m
	}
}

// refBody encodes only the message body (what follows the header and the optional tracing/payload prefix)
func refBody(v primitive.ProtocolVersion, op primitive.OpCode, m message.Message) []byte {
	var buf bytes.Buffer
	if err := refMsgCodecs[op].Encode(m, &buf, v); err != nil {
		return nil
	}
	return buf.Bytes()
}

var _ = frame.NewFrame

func genCodec(e *emitter, r *rng.R, n int, tier string) {
	var ops []string
	defer func() { e.emitAll(ops, 12) }()
	emit := func(v primitive.ProtocolVersion, op primitive.OpCode, body []byte) {
		// a [long string] length of up to 2 GiB makes the decoders (library and proxy alike) allocate that much
		// before looking at the input; keep most malformed QUERY bodies below 16 MiB so the run stays fast
		if op == primitive.OpCodeQuery && len(body) > 0 && body[0] != 0 && body[0] < 0x80 && len(ops)%100 != 0 {
			body = append([]byte{0}, body[1:]...)
		}
		ops = append(ops, fmt.Sprintf("V:%d O:%d %s", v, op, hex.EncodeToString(body)))
	}
	// batches at the small end of what a child can be: many children, each a 1-byte prepared id without values
	for _, v := range codecVersions {
		for _, k := range []int{1, 3, 4, 7, 8, 20, 300} {
			b := &message.Batch{Type: primitive.BatchTypeUnlogged, Consistency: primitive.ConsistencyLevelOne}
			for j := 0; j < k; j++ {
				b.Children = append(b.Children, &message.BatchChild{Id: []byte{byte(j + 1)}})
			}
			if body := refBody(v, primitive.OpCodeBatch, b); body != nil {
				emit(v, primitive.OpCodeBatch, body)
			}
		}
	}
	for i := 0; i < n; i++ {
		rr := r.Fork(uint64(i))
		v := codecVersions[rr.Intn(len(codecVersions))]
		op, m := genRefMessage(rr, v)
		body := refBody(v, op, m)
		if body == nil {
			continue
		}
		emit(v, op, body)
		if v >= 4 && rr.Intn(3) == 0 { // the same body inside a frame that carries a custom payload and/or the tracing flag
			var pre bytes.Buffer
			flags := 0
			if rr.Intn(4) > 0 {
				flags |= 4
				_ = primitive.WriteBytesMap(map[string][]byte{"graph-source": []byte("g"), strings.Repeat("k", rr.Intn(9)): rr.Bytes(rr.Intn(12)), "nil": nil}, &pre)
			}
			if rr.Intn(3) == 0 {
				flags |= 2
			}
			ops[len(ops)-1] = fmt.Sprintf("V:%d O:%d E:%d:%s %s", v, op, flags, hex.EncodeToString(pre.Bytes()), hex.EncodeToString(body))
		}
		valid := emit
		emit := func(v primitive.ProtocolVersion, op primitive.OpCode, body []byte) {
			valid(v, op, body)
			ops[len(ops)-1] = "M:1 " + ops[len(ops)-1]
		}
		switch rr.Intn(4) {
		case 0: // every prefix of a valid body (thorough) or a few of them
			k := 3
			if tier == "thorough" {
				k = len(body)
			}
			for j := 0; j < k && len(body) > 0; j++ {
				cut := rr.Intn(len(body))
				if tier == "thorough" {
					cut = j
				}
				emit(v, op, body[:cut])
			}
		case 1: // single-byte mutation
			if len(body) > 0 {
				b := append([]byte{}, body...)
				b[rr.Intn(len(b))] = byte(rr.U64())
				emit(v, op, b)
			}
		case 2: // random bytes
			emit(v, op, rr.Bytes(rr.Intn(40)))
		}
	}
}
