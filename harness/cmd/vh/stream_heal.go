package main

import (
	"fmt"
	"strconv"
	"strings"
	"sync"
	"time"

	"github.com/datastax/go-cassandra-native-protocol/frame"
	"github.com/datastax/go-cassandra-native-protocol/message"
	"verifharness/internal/e2e"
	"verifharness/internal/fakecass"
	"verifharness/internal/rng"
)

// heal: the real proxy in front of one backend node; the pooled connection (K:pool) or the control connection
// (K:ctl) is lost again and again, and the backend turns away a number of the reconnection attempts that follow
// before it lets one through. What the backend sees - when each attempt arrives - is the only observation.
// op:   K:<pool|ctl> B:<base delay ms> M:<max delay ms> R:<k1>,<k2>,...   (round i: drop the connection, turn away k_i attempts;
//       a suffix e on k_i: the attempts are turned away with an ERROR in answer to STARTUP instead of a closed socket;
//       a suffix s: the attempts are accepted and never answered - the proxy gives up on each after T:<connect timeout ms>)
// real: gaps=<ms>,<ms>,..;<ms>,..  one group per round: drop -> first attempt, then attempt -> next attempt
//       (the last attempt of a group is the one let through)  [stuck:<round>] when no attempt arrived in time
//       out=<reported outage ms>/<ms since the drop>;..  per round, read when the last attempt that is turned away arrives (- if none)

func init() { streams["heal"] = stream{gen: genHeal, run: runHeal} }

func runHeal(op string) (out string) {
	defer func() {
		if p := recover(); p != nil {
			out = fmt.Sprintf("panic:%v", p)
		}
	}()
	kind, base, max := "pool", 1, 3000
	connectTimeout := 2000
	var rounds []int
	var byError []bool
	var bySilence []bool
	for _, t := range strings.Fields(op) {
		switch {
		case strings.HasPrefix(t, "K:"):
			kind = t[2:]
		case strings.HasPrefix(t, "B:"):
			base, _ = strconv.Atoi(t[2:])
		case strings.HasPrefix(t, "M:"):
			max, _ = strconv.Atoi(t[2:])
		case strings.HasPrefix(t, "T:"):
			connectTimeout, _ = strconv.Atoi(t[2:])
		case strings.HasPrefix(t, "R:"):
			for _, x := range strings.Split(t[2:], ",") {
				k, _ := strconv.Atoi(strings.TrimRight(x, "es"))
				rounds = append(rounds, k)
				byError = append(byError, strings.HasSuffix(x, "e"))
				bySilence = append(bySilence, strings.HasSuffix(x, "s"))
			}
		}
	}
	env, err := e2e.Start(e2e.Options{Hosts: 1, NumConns: 1, ReconnectBase: time.Duration(base) * time.Millisecond,
		ReconnectMax: time.Duration(max) * time.Millisecond, ConnectTimeout: time.Duration(connectTimeout) * time.Millisecond})
	if err != nil {
		return "env-error"
	}
	defer env.Close()
	node := env.Cluster.Node(env.IPs[0])
	// the proxy holds a control connection (registered for events) and one pooled connection
	var mu sync.Mutex
	silent := map[*fakecass.Conn]bool{}
	ready := func() bool {
		reg, plain := 0, 0
		for _, c := range node.Conns() {
			mu.Lock()
			q := silent[c]
			mu.Unlock()
			if q { // an attempt the node never answered: the proxy gave up on it (it does not close such a socket, see DESIGN §0.3)
				continue
			}
			if c.Registered() {
				reg++
			} else {
				plain++
			}
		}
		return reg == 1 && plain == 1
	}
	waitReady := func(d time.Duration) bool {
		deadline := time.Now().Add(d)
		for time.Now().Before(deadline) {
			if ready() {
				return true
			}
			time.Sleep(2 * time.Millisecond)
		}
		return false
	}
	if !waitReady(5 * time.Second) {
		return "env-error:not-ready"
	}
	refuse := 0
	withError, withSilence := false, false
	refusing := map[*fakecass.Conn]bool{}
	env.Cluster.SetStartupHandler(func(c *fakecass.Conn, h *frame.Header) (fakecass.Response, bool) {
		mu.Lock()
		r := refusing[c]
		q := silent[c]
		mu.Unlock()
		if q { // the node has accepted the connection and says nothing: the proxy has to give up on it by itself
			return fakecass.Response{Kind: fakecass.RespSilent}, true
		}
		if !r {
			return fakecass.Response{}, false
		}
		go func() { time.Sleep(20 * time.Millisecond); c.Close() }()
		return fakecass.Response{Kind: fakecass.RespMsg, Msg: &message.ServerError{ErrorMessage: "node is starting"}}, true
	})
	var arrivals []time.Time
	arrived := make(chan struct{}, 1024)
	env.Cluster.SetOnConnect(func(c *fakecass.Conn) {
		mu.Lock()
		arrivals = append(arrivals, time.Now())
		turnAway := refuse > 0
		if turnAway {
			refuse--
			if withError {
				refusing[c] = true
			}
			if withSilence {
				silent[c] = true
			}
		}
		byErr := withError || withSilence
		mu.Unlock()
		if turnAway && !byErr {
			c.Close()
		}
		arrived <- struct{}{}
	})
	var groups, outs []string
	for ri, k := range rounds {
		mu.Lock()
		refuse = k
		withError = byError[ri]
		withSilence = bySilence[ri]
		arrivals = nil
		mu.Unlock()
		for len(arrived) > 0 {
			<-arrived
		}
		last := time.Now()
		dropped := last
		out := "-"
		node.DropConns(func(c interface{ Registered() bool }) bool { return c.Registered() == (kind == "ctl") })
		var gaps []string
		for a := 0; a <= k; a++ {
			select {
			case <-arrived:
			case <-time.After(time.Duration(max)*time.Millisecond + 4*time.Second):
				groups = append(groups, strings.Join(gaps, ","))
				return "gaps=" + strings.Join(groups, ";") + fmt.Sprintf(" stuck:%d", ri)
			}
			mu.Lock()
			at := arrivals[a]
			mu.Unlock()
			gaps = append(gaps, fmt.Sprint(at.Sub(last).Milliseconds()))
			last = at
			if bySilence[ri] && a < k { // a silent attempt ends when the proxy's connect timeout expires: the delay counts from there
				last = at.Add(time.Duration(connectTimeout) * time.Millisecond)
			}
			if a == k-1 { // the last attempt that is turned away has just arrived
				out = fmt.Sprintf("%d/%d", env.Proxy.OutageDuration().Milliseconds(), time.Since(dropped).Milliseconds())
			}
		}
		if k == 0 && kind == "pool" {
			out = fmt.Sprintf("%d/%d", env.Proxy.OutageDuration().Milliseconds(), time.Since(dropped).Milliseconds())
		}
		outs = append(outs, out)
		groups = append(groups, strings.Join(gaps, ","))
		if !waitReady(5 * time.Second) {
			return "gaps=" + strings.Join(groups, ";") + fmt.Sprintf(" stuck:%d", ri)
		}
		time.Sleep(30 * time.Millisecond)
	}
	return "gaps=" + strings.Join(groups, ";") + " out=" + strings.Join(outs, ";")
}

func genHeal(e *emitter, r *rng.R, n int, tier string) {
	ops := []string{
		"K:pool B:1 M:3000 R:5,0,1",  // five failed attempts take the pool's policy to its 12th delay; then it must start over
		"K:ctl B:1 M:3000 R:10,0,1",  // the control loop steps through every delay: ten failures reach the 11th
		"K:pool B:1 M:400 R:4,0",     // the cap
		"K:ctl B:1 M:400 R:9,1",
		"K:pool B:1 M:1500 R:2e,1,3e", // a node that is up but answers STARTUP with an error for a while
		"K:ctl B:1 M:1500 R:3e,0,2e",
		"K:ctl B:1 M:400 T:300 R:2s,0,1s",   // a node that accepts the connection and never answers the handshake
		"K:pool B:1 M:400 T:300 R:2s,1,1s",
		"K:pool B:40 M:3000 R:0,0,0,0,0,0", // losses without failed attempts: always the same first delay
		"K:ctl B:40 M:3000 R:0,0,0,0,0,0",
	}
	defer func() { e.emitAll(ops, 12) }()
	for i := 0; i < n; i++ {
		rr := r.Fork(uint64(i))
		kind := rr.Pick([]string{"pool", "ctl"})
		base := []int{1, 1, 5, 40}[rr.Intn(4)]
		max := []int{400, 1500, 3000}[rr.Intn(3)]
		var rs []string
		budget := 6000 // ms of expected waiting
		for j := 0; j < 2+rr.Intn(3) && budget > 0; j++ {
			k := rr.Intn(5)
			if j == 0 {
				k = 3 + rr.Intn(3)
				if kind == "ctl" {
					k = 8 + rr.Intn(3)
				}
			}
			if rr.Intn(4) == 0 {
				rs = append(rs, fmt.Sprint(k)+"e")
			} else {
				rs = append(rs, fmt.Sprint(k))
			}
			budget -= (k + 1) * 150
			if kind == "ctl" {
				budget -= 1 << uint(k)
			} else {
				budget -= 1 << uint(2*k+1)
			}
		}
		ops = append(ops, fmt.Sprintf("K:%s B:%d M:%d R:%s", kind, base, max, strings.Join(rs, ",")))
	}
}
