package main

import (
	"bytes"
	"encoding/binary"
	"fmt"
	"strconv"
	"strings"
	"time"

	"github.com/datastax/go-cassandra-native-protocol/frame"
	"github.com/datastax/go-cassandra-native-protocol/message"
	"github.com/datastax/go-cassandra-native-protocol/primitive"
	"verifharness/internal/e2e"
	"verifharness/internal/fakecass"
	"verifharness/internal/rng"
)

// gate: what the real proxy does with the first bytes of a connection and with handshake sequences.
// op:   M:<max version> then per-connection frame sequence
//         X:<version byte>:<opcode>     a frame with that version/direction byte and opcode and a minimal well-formed body
//         O | S:<compression|-> | R:<event types, comma separated|-> | Q     OPTIONS / STARTUP / REGISTER / forwarded QUERY (v = min(max,4))
// real: one token per frame sent:  closed | none | perr(<v named?>) | supported | ready | err+ready | error:<code> | result ... ; then fwd=<frames the backend saw>

func init() { streams["gate"] = stream{gen: genGate, run: runGate} }

// minimalBody renders a minimal well-formed body for the opcode in the given protocol version using the
// reference codec (bodies differ between versions: flag widths, result-metadata ids, PREPARE flags).
func minimalBody(op byte, version byte) []byte {
	var msg message.Message
	opts := &message.QueryOptions{Consistency: primitive.ConsistencyLevelOne}
	switch primitive.OpCode(op) {
	case primitive.OpCodeStartup:
		msg = &message.Startup{Options: map[string]string{"CQL_VERSION": "3.0.0"}}
	case primitive.OpCodeOptions:
		msg = &message.Options{}
	case primitive.OpCodeQuery:
		msg = &message.Query{Query: "SELECT v FROM ks.t", Options: opts}
	case primitive.OpCodePrepare:
		msg = &message.Prepare{Query: "SELECT v FROM ks.t"}
	case primitive.OpCodeExecute:
		msg = &message.Execute{QueryId: []byte("0123456789abcdef"), ResultMetadataId: []byte("0123456789abcdef"), Options: opts}
	case primitive.OpCodeBatch:
		msg = &message.Batch{Type: primitive.BatchTypeLogged, Consistency: primitive.ConsistencyLevelOne}
	case primitive.OpCodeRegister:
		msg = &message.Register{EventTypes: []primitive.EventType{primitive.EventTypeSchemaChange}}
	case primitive.OpCodeAuthResponse:
		msg = &message.AuthResponse{Token: []byte{}}
	case primitive.OpCodeReady:
		return nil
	default:
		return nil
	}
	v := primitive.ProtocolVersion(version)
	if !v.IsSupported() || v < primitive.ProtocolVersion3 {
		v = primitive.ProtocolVersion4 // the body is never looked at for these versions
	}
	var buf bytes.Buffer
	if err := fakecass.Codec("").EncodeFrame(frame.NewFrame(v, 1, msg), &buf); err != nil || buf.Len() < 9 {
		return nil
	}
	return buf.Bytes()[9:]
}

func rawFrame(vbyte byte, opcode byte, stream int16, body []byte) []byte {
	var h []byte
	if vbyte&0x7f <= 2 { // v1/v2 headers carry a one-byte stream id
		h = []byte{vbyte, 0, byte(stream), opcode}
	} else {
		h = []byte{vbyte, 0, byte(stream >> 8), byte(stream), opcode}
	}
	l := make([]byte, 4)
	binary.BigEndian.PutUint32(l, uint32(len(body)))
	return append(append(h, l...), body...)
}

func classify(r *e2e.Reply, v byte) string {
	if r.Frame == nil {
		return "undecodable"
	}
	switch m := r.Frame.Body.Message.(type) {
	case *message.ProtocolError:
		if strings.Contains(m.ErrorMessage, fmt.Sprintf("version %d", v&0x7f)) {
			return "perr-version"
		}
		if strings.Contains(m.ErrorMessage, "compression") {
			return "perr-compression"
		}
		return "perr"
	case message.Error:
		return "error"
	case *message.Supported:
		return "supported"
	case *message.Ready:
		return "ready"
	default:
		return "result"
	}
}

func runGate(op string) (out string) {
	defer func() {
		if p := recover(); p != nil {
			out = fmt.Sprintf("panic:%v", p)
		}
	}()
	toks := strings.Fields(op)
	max := primitive.ProtocolVersion4
	var frames []string
	for _, t := range toks {
		if strings.HasPrefix(t, "M:") {
			n, _ := strconv.Atoi(t[2:])
			max = primitive.ProtocolVersion(n)
		} else {
			frames = append(frames, t)
		}
	}
	env, err := e2e.Start(e2e.Options{Hosts: 1, MaxVersion: max, Version: primitive.ProtocolVersion3, BackendMax: primitive.ProtocolVersionDse2})
	if err != nil {
		return "env-error:" + err.Error()
	}
	defer env.Close()
	env.Cluster.Handler = func(rq *fakecass.Request) fakecass.Response {
		if rq.Header.OpCode == primitive.OpCodePrepare {
			return fakecass.Response{Kind: fakecass.RespMsg, Msg: &message.PreparedResult{PreparedQueryId: []byte("0123456789abcdef"), ResultMetadataId: []byte("0123456789abcdef")}}
		}
		return fakecass.Response{Kind: fakecass.RespMsg, Msg: &message.VoidResult{}}
	}
	cl, err := e2e.DialRaw(env.Addr)
	if err != nil {
		return "dial-error"
	}
	defer cl.Close()
	v := byte(4)
	if max < 4 {
		v = byte(max)
	}
	cl.Version = primitive.ProtocolVersion(v)
	var res []string
	closed := false
	for i, f := range frames {
		if closed && !strings.HasPrefix(f, "V:") {
			res = append(res, "closed")
			continue
		}
		var b []byte
		vb := v
		compBefore, startupSent := cl.Compression, false
		parts := strings.Split(f, ":")
		if parts[0] == "V" { // the client goes on in another protocol version (no frame is sent)
			x, _ := strconv.Atoi(parts[1])
			v = byte(x)
			cl.Version = primitive.ProtocolVersion(v)
			continue
		}
		switch parts[0] {
		case "X":
			x, _ := strconv.Atoi(parts[1])
			o, _ := strconv.Atoi(parts[2])
			vb = byte(x)
			b = rawFrame(vb, byte(o), int16(i+1), minimalBody(byte(o), vb&0x7f))
		case "O":
			b, _ = cl.Encode(int16(i+1), &message.Options{}, nil)
		case "S":
			opts := map[string]string{"CQL_VERSION": "3.0.0"}
			if parts[1] != "-" {
				opts["COMPRESSION"] = parts[1]
			}
			if len(parts) > 2 {
				opts["DRIVER_NAME"] = parts[2]
			}
			// STARTUP itself is never compressed
			save := cl.Compression
			cl.Compression = ""
			b, _ = cl.Encode(int16(i+1), &message.Startup{Options: opts}, nil)
			cl.Compression = save
			if lc := strings.ToLower(parts[1]); lc == "lz4" || lc == "snappy" {
				cl.Compression = lc // what a driver does after asking for a supported algorithm …
				startupSent = true
			}
		case "R":
			var ts []primitive.EventType
			if parts[1] != "-" {
				for _, t := range strings.Split(parts[1], ",") {
					ts = append(ts, primitive.EventType(t))
				}
			}
			b, _ = cl.Encode(int16(i+1), &message.Register{EventTypes: ts}, nil)
		case "Q":
			b, _ = cl.Encode(int16(i+1), &message.Query{Query: "SELECT v FROM ks.t", Options: &message.QueryOptions{Consistency: primitive.ConsistencyLevelOne}}, nil)
		}
		if b == nil {
			res = append(res, "unencodable")
			continue
		}
		if cl.WriteBytes(b) != nil {
			closed = true
			res = append(res, "closed")
			continue
		}
		// collect every frame this one produces (there must be exactly one)
		var got []string
		for {
			to := 150 * time.Millisecond
			if len(got) > 0 {
				to = 25 * time.Millisecond
			}
			r, err := cl.Recv(to)
			if err == e2e.ErrTimeout {
				break
			}
			if err != nil {
				closed = true
				break
			}
			c := classify(r, vb)
			if r.Header != nil && r.Header.StreamId != int16(i+1) && !(vb&0x7f <= 2) {
				c += "@wrong-stream"
			}
			got = append(got, c)
		}
		if startupSent && !(len(got) == 1 && got[0] == "ready") {
			cl.Compression = compBefore // … and was answered READY: a STARTUP that was turned away changes nothing
		}
		switch {
		case len(got) == 0 && closed:
			res = append(res, "closed")
		case len(got) == 0:
			res = append(res, "none")
		default:
			s := strings.Join(got, "+")
			if closed {
				s += "+closed"
			}
			res = append(res, s)
		}
	}
	fwd, bad := 0, 0
	for _, rq := range env.Cluster.Log() {
		fwd++
		if rq.Frame == nil || rq.DecodeErr != nil { // e.g. a compressed frame on a connection that negotiated none
			bad++
		}
	}
	out = strings.Join(res, " ") + fmt.Sprintf(" fwd=%d", fwd)
	if bad > 0 {
		out += fmt.Sprintf(" bad=%d", bad)
	}
	return out
}

func genGate(e *emitter, r *rng.R, n int, tier string) {
	var ops []string
	defer func() { e.emitAll(ops, 12) }()
	maxes := []int{3, 4, 5, 65, 66}
	known := []int{2, 3, 4, 5, 65, 66}
	defined := []int{0, 1, 2, 3, 5, 6, 7, 8, 9, 10, 11, 12, 13, 14, 15, 16, 255}
	// one gate probe per connection, followed by OPTIONS to see whether the connection is still usable
	for _, m := range maxes {
		for _, dir := range []int{0, 128} {
			for _, v := range known {
				opcodes := defined
				if tier == "thorough" {
					opcodes = nil
					for o := 0; o < 256; o++ {
						opcodes = append(opcodes, o)
					}
				}
				for _, o := range opcodes {
					ops = append(ops, fmt.Sprintf("M:%d X:%d:%d O", m, v+dir, o))
				}
			}
		}
		// unknown version bytes
		for v := 0; v < 128; v++ {
			isKnown := false
			for _, k := range known {
				isKnown = isKnown || k == v
			}
			if isKnown || (tier != "thorough" && v%9 != 0 && v != 1 && v != 6 && v != 64 && v != 67 && v != 127) {
				continue
			}
			for _, o := range []int{1, 5, 7} {
				ops = append(ops, fmt.Sprintf("M:%d X:%d:%d O", m, v, o))
			}
		}
	}
	// handshake sequences
	comps := []string{"-", "lz4", "LZ4", "snappy", "Snappy", "SNAPPY", "zstd", "gzip", "", "lz4 ", "none"}
	evs := []string{"SCHEMA_CHANGE", "TOPOLOGY_CHANGE", "STATUS_CHANGE", "SCHEMA_CHANGE,STATUS_CHANGE", "TOPOLOGY_CHANGE,STATUS_CHANGE,SCHEMA_CHANGE"}
	for _, c := range comps {
		ops = append(ops, fmt.Sprintf("M:4 O S:%s Q O", c), fmt.Sprintf("M:4 S:%s R:SCHEMA_CHANGE Q", c), fmt.Sprintf("M:4 Q S:%s Q Q", c))
	}
	// every accepted version with every supported compression, and a client that raises its version in mid-connection
	accepted := []int{3, 4, 5, 65, 66}
	for _, m := range []int{3, 4, 5, 65, 66} {
		for _, v := range accepted {
			if v > m {
				continue
			}
			for _, c := range []string{"lz4", "snappy", "-"} {
				ops = append(ops, fmt.Sprintf("M:%d V:%d O S:%s Q O", m, v, c))
			}
		}
		for _, v := range accepted {
			if v > m {
				ops = append(ops, fmt.Sprintf("M:%d V:%d S:- Q V:%d Q O V:%d Q", m, m, v, m), fmt.Sprintf("M:%d V:%d S:- Q V:%d S:- O R:SCHEMA_CHANGE V:%d O Q", m, m, v, m))
			} else {
				ops = append(ops, fmt.Sprintf("M:%d V:%d S:- Q V:%d Q O", m, m, v))
			}
		}
	}
	for i := 0; i < n; i++ {
		rr := r.Fork(uint64(i))
		parts := []string{fmt.Sprintf("M:%d", maxes[rr.Intn(5)])}
		if rr.Chance(1, 3) {
			parts = append(parts, fmt.Sprintf("V:%d", accepted[rr.Intn(5)]))
		}
		started := false
		for j := 0; j < 2+rr.Intn(5); j++ {
			switch c := rr.Intn(10); {
			case c < 2:
				parts = append(parts, "O")
			case c < 5 || (!started && rr.Intn(3) > 0): // (sometimes requests come before the first STARTUP)
				comp := rr.Pick(comps)
				if started && comp != "-" { // a second STARTUP changing compression mid-stream is outside the property
					comp = "-"
				}
				parts = append(parts, "S:"+comp)
				started = true
			case c < 7:
				parts = append(parts, "R:"+rr.Pick(evs))
			case c < 9:
				if rr.Chance(1, 6) {
					parts = append(parts, fmt.Sprintf("V:%d", accepted[rr.Intn(5)]))
				}
				parts = append(parts, "Q")
			default:
				parts = append(parts, fmt.Sprintf("X:%d:%d", []int{2, 3, 4, 5, 65, 66, 1, 6, 67}[rr.Intn(9)], []int{1, 5, 7, 9}[rr.Intn(4)]))
			}
		}
		ops = append(ops, strings.Join(parts, " "))
	}
}
