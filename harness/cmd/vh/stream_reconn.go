package main

import (
	"fmt"
	"strconv"
	"strings"
	"time"

	"github.com/datastax/cql-proxy/proxycore"
	"verifharness/internal/rng"
)

// reconn: the public API of the reconnection back-off calculator.
// op:   B:<base ns> M:<max ns> then n (NextDelay) | r (Reset) | c (Clone, continue with the clone)
// real: the delays returned, in ns

func init() { streams["reconn"] = stream{gen: genReconn, run: runReconn} }

func runReconn(op string) (out string) {
	defer func() {
		if p := recover(); p != nil {
			out = fmt.Sprintf("panic:%v", p)
		}
	}()
	var base, max int64
	var acts []string
	for _, t := range strings.Fields(op) {
		switch {
		case strings.HasPrefix(t, "B:"):
			base, _ = strconv.ParseInt(t[2:], 10, 64)
		case strings.HasPrefix(t, "M:"):
			max, _ = strconv.ParseInt(t[2:], 10, 64)
		default:
			acts = append(acts, t)
		}
	}
	p := proxycore.NewReconnectPolicyWithDelays(time.Duration(base), time.Duration(max))
	var res []string
	for _, a := range acts {
		switch a {
		case "n":
			res = append(res, strconv.FormatInt(int64(p.NextDelay()), 10))
		case "r":
			p.Reset()
		case "c":
			p = p.Clone()
		}
	}
	return strings.Join(res, " ")
}

func genReconn(e *emitter, r *rng.R, n int, tier string) {
	bases := []int64{0, 1, 2, 3, 1000, 1000000, 85000000, 2000000000, 1 << 31, 1 << 40, 1<<44 - 1, 1 << 44, 1<<45 - 1, 1 << 45, 1 << 50, 1 << 62, -1, -2000000000}
	maxes := []int64{0, 1, 1000000, 100000000, 2000000000, 600000000000, 1 << 45, 1<<63 - 1, -5}
	for _, b := range bases {
		for _, m := range maxes {
			e.emit(fmt.Sprintf("B:%d M:%d %s", b, m, strings.TrimSpace(strings.Repeat("n ", 66))+" r n n c n"))
		}
	}
	for i := 0; i < n; i++ {
		b := bases[r.Intn(len(bases))]
		if r.Bool() {
			b = int64(r.U64() >> uint(r.Intn(63)))
		}
		m := maxes[r.Intn(len(maxes))]
		if r.Bool() {
			m = int64(r.U64() >> uint(1+r.Intn(62)))
		}
		parts := []string{fmt.Sprintf("B:%d", b), fmt.Sprintf("M:%d", m)}
		for j := 0; j < 1+r.Intn(70); j++ {
			parts = append(parts, []string{"n", "n", "n", "n", "n", "n", "r", "c"}[r.Intn(8)])
		}
		e.emit(strings.Join(parts, " "))
	}
}
