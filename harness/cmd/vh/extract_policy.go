package main

import (
	"fmt"
	"go/ast"
	"go/parser"
	"go/token"
	"path/filepath"
	"strings"
)

// policy: boolean-function translator for proxy/retrypolicy.go (DESIGN §3.2 item 2).
// Accepts methods of defaultRetryPolicy whose body is, after optional `x := call()` bindings,
//   if <cond> { return A } else { return B }     |     return A
// with <cond> built from parameters, field selectors of the message parameter, package
// constants, integer literals, comparisons and && || !. Anything else is a translator failure.

type polTr struct {
	msgParam string
	binds    map[string]string // local name -> lean variable
	fields   map[string]bool
	err      error
}

func lowerFirst(s string) string {
	if s == "" {
		return s
	}
	return strings.ToLower(s[:1]) + s[1:]
}

func (t *polTr) fail(n ast.Node, why string) string {
	if t.err == nil {
		t.err = fmt.Errorf("unsupported construct (%s): %T", why, n)
	}
	return "sorryUnsupported"
}

// term renders an integer- or symbol-valued expression
func (t *polTr) term(e ast.Expr) (string, string) { // (lean, kind) kind: int | sym
	switch x := e.(type) {
	case *ast.ParenExpr:
		return t.term(x.X)
	case *ast.BasicLit:
		if x.Kind == token.INT {
			return "(" + x.Value + " : Int)", "int"
		}
	case *ast.Ident:
		if v, ok := t.binds[x.Name]; ok {
			return v, "sym"
		}
		return x.Name, "int"
	case *ast.SelectorExpr:
		if id, ok := x.X.(*ast.Ident); ok {
			if id.Name == t.msgParam {
				t.fields[x.Sel.Name] = true
				f := lowerFirst(x.Sel.Name)
				if x.Sel.Name == "WriteType" {
					return f, "sym"
				}
				return f, "int"
			}
			// package constant, kept symbolic by name
			return `"` + x.Sel.Name + `"`, "sym"
		}
	}
	return t.fail(e, "term"), "int"
}

func (t *polTr) cond(e ast.Expr) string {
	switch x := e.(type) {
	case *ast.ParenExpr:
		return "(" + t.cond(x.X) + ")"
	case *ast.UnaryExpr:
		if x.Op == token.NOT {
			return "(!" + t.cond(x.X) + ")"
		}
	case *ast.SelectorExpr: // boolean field
		if id, ok := x.X.(*ast.Ident); ok && id.Name == t.msgParam {
			t.fields[x.Sel.Name] = true
			return lowerFirst(x.Sel.Name)
		}
	case *ast.BinaryExpr:
		switch x.Op {
		case token.LAND:
			return "(" + t.cond(x.X) + " && " + t.cond(x.Y) + ")"
		case token.LOR:
			return "(" + t.cond(x.X) + " || " + t.cond(x.Y) + ")"
		case token.EQL, token.NEQ, token.GEQ, token.LEQ, token.GTR, token.LSS:
			a, ka := t.term(x.X)
			b, kb := t.term(x.Y)
			if ka != kb {
				// a symbolic constant compared with an int-typed field: treat both as symbols
				ka = "sym"
			}
			op := map[token.Token]string{token.EQL: "==", token.NEQ: "!=", token.GEQ: "≥", token.LEQ: "≤", token.GTR: ">", token.LSS: "<"}[x.Op]
			if x.Op == token.EQL || x.Op == token.NEQ {
				return "(" + a + " " + op + " " + b + ")"
			}
			if ka == "sym" {
				return t.fail(e, "ordering on symbols")
			}
			return "decide (" + a + " " + op + " " + b + ")"
		}
	}
	return t.fail(e, "condition")
}

func (t *polTr) ret(s ast.Stmt) string {
	if r, ok := s.(*ast.ReturnStmt); ok && len(r.Results) == 1 {
		if id, ok := r.Results[0].(*ast.Ident); ok {
			switch id.Name {
			case "RetrySame":
				return ".retrySame"
			case "RetryNext":
				return ".retryNext"
			case "ReturnError":
				return ".returnError"
			}
		}
	}
	return t.fail(s, "return")
}

func (t *polTr) block(stmts []ast.Stmt) string {
	if len(stmts) == 0 {
		return t.fail(&ast.BlockStmt{}, "empty block")
	}
	switch s := stmts[0].(type) {
	case *ast.AssignStmt: // code := msg.GetErrorCode()
		if s.Tok == token.DEFINE && len(s.Lhs) == 1 && len(s.Rhs) == 1 {
			if call, ok := s.Rhs[0].(*ast.CallExpr); ok && len(call.Args) == 0 {
				if sel, ok := call.Fun.(*ast.SelectorExpr); ok {
					if id, ok := sel.X.(*ast.Ident); ok && id.Name == t.msgParam && sel.Sel.Name == "GetErrorCode" {
						t.binds[s.Lhs[0].(*ast.Ident).Name] = "code"
						t.fields["<code>"] = true
						return t.block(stmts[1:])
					}
				}
			}
		}
		return t.fail(s, "assignment")
	case *ast.IfStmt:
		if s.Init != nil {
			return t.fail(s, "if with init")
		}
		thenS := t.block(s.Body.List)
		var elseS string
		switch {
		case s.Else != nil:
			if b, ok := s.Else.(*ast.BlockStmt); ok {
				elseS = t.block(b.List)
			} else if i, ok := s.Else.(*ast.IfStmt); ok {
				elseS = t.block([]ast.Stmt{i})
			} else {
				return t.fail(s, "else")
			}
		case len(stmts) > 1:
			elseS = t.block(stmts[1:])
		default:
			return t.fail(s, "if without else")
		}
		return "if " + t.cond(s.Cond) + " then " + thenS + " else " + elseS
	case *ast.ReturnStmt:
		return t.ret(s)
	}
	return t.fail(stmts[0], "statement")
}

func init() {
	extractors["policy"] = func(outDir string) error {
		fset := token.NewFileSet()
		f, err := parser.ParseFile(fset, filepath.Join(repoRoot(), "proxy", "retrypolicy.go"), nil, 0)
		if err != nil {
			return err
		}
		want := map[string]string{ // method -> Lean signature
			"OnReadTimeout":   "(received blockFor : Int) (dataPresent : Bool) (retryCount : Int)",
			"OnWriteTimeout":  "(writeType : String) (retryCount : Int)",
			"OnUnavailable":   "(retryCount : Int)",
			"OnErrorResponse": "(code : String) (retryCount : Int)",
		}
		allowed := map[string]map[string]bool{
			"OnReadTimeout":   {"Received": true, "BlockFor": true, "DataPresent": true},
			"OnWriteTimeout":  {"WriteType": true},
			"OnUnavailable":   {},
			"OnErrorResponse": {"<code>": true},
		}
		var sb strings.Builder
		sb.WriteString("/- GENERATED by `vh extract policy` from /repo/proxy/retrypolicy.go — do not edit. -/\n")
		sb.WriteString("namespace CqlVerif.Gen.RetryPolicy\n\ninductive Decision where\n  | retrySame | retryNext | returnError\n  deriving Repr, DecidableEq\n\n")
		found := map[string]bool{}
		for _, d := range f.Decls {
			fd, ok := d.(*ast.FuncDecl)
			if !ok || fd.Recv == nil || fd.Body == nil {
				continue
			}
			recv := ""
			switch r := fd.Recv.List[0].Type.(type) {
			case *ast.Ident:
				recv = r.Name
			case *ast.StarExpr:
				if id, ok := r.X.(*ast.Ident); ok {
					recv = id.Name
				}
			}
			sig, ok := want[fd.Name.Name]
			if recv != "defaultRetryPolicy" || !ok {
				continue
			}
			params := fd.Type.Params.List
			if len(params) != 2 {
				return fmt.Errorf("%s: expected (msg, retryCount)", fd.Name.Name)
			}
			t := &polTr{binds: map[string]string{}, fields: map[string]bool{}}
			if len(params[0].Names) == 1 {
				t.msgParam = params[0].Names[0].Name
			}
			if len(params[1].Names) != 1 || params[1].Names[0].Name != "retryCount" {
				return fmt.Errorf("%s: second parameter must be retryCount", fd.Name.Name)
			}
			body := t.block(fd.Body.List)
			if t.err != nil {
				return fmt.Errorf("%s: %v", fd.Name.Name, t.err)
			}
			for fld := range t.fields {
				if !allowed[fd.Name.Name][fld] {
					return fmt.Errorf("%s: reads message field %s which the model does not carry", fd.Name.Name, fld)
				}
			}
			fmt.Fprintf(&sb, "def %s %s : Decision :=\n  %s\n\n", lowerFirst(fd.Name.Name), sig, body)
			found[fd.Name.Name] = true
		}
		for k := range want {
			if !found[k] {
				return fmt.Errorf("anchor defaultRetryPolicy.%s not found in proxy/retrypolicy.go", k)
			}
		}
		sb.WriteString("end CqlVerif.Gen.RetryPolicy\n")
		return writeGen(outDir, "RetryPolicy.lean", sb.String())
	}
}
