package main

import (
	"crypto/md5"
	"fmt"
	"sort"
	"strconv"
	"strings"
	"sync"
	"time"

	"github.com/datastax/go-cassandra-native-protocol/frame"
	"github.com/datastax/go-cassandra-native-protocol/message"
	"github.com/datastax/go-cassandra-native-protocol/primitive"
	"verifharness/internal/e2e"
	"verifharness/internal/fakecass"
	"verifharness/internal/rng"
)

// retry: one request through the real proxy against scripted per-attempt backend outcomes.
// op:   H:<hosts> C:<conns> W:<warm-up requests> K:<kind> D:<down hosts|-> [Z:<host whose first connection is lost>] X:<outcome>...
//       outcome suffix +w / +t / +p: the error frame carries warnings / a tracing id / a custom payload
//       outcome idle: the backend stops answering on that connection, heart-beats included (the proxy's idle
//       timeout closes it)
// real: att:<host,...> prep:<host,...> reply:<class>

func init() { streams["retry"] = stream{gen: genRetry, run: runRetry} }

const (
	stmtIdem    = "INSERT INTO ks.t (k, v) VALUES (1, 'a')"
	stmtNonIdem = "INSERT INTO ks.t (k, v) VALUES (1, now())"
	stmtBad     = "INSERT INTO ks.t (k, v) VALUES (1, "
	stmtSelect  = "SELECT v FROM ks.t WHERE k = 1"
	stmtCounter = "UPDATE ks.c SET n = n + 1 WHERE k = 1"
)

func pid(q string) []byte { s := md5.Sum([]byte(q)); return s[:] }

func errFor(tok string, tag string) message.Message {
	p := strings.Split(tok, ":")
	switch p[0] {
	case "rt":
		rc, _ := strconv.Atoi(p[1])
		bf, _ := strconv.Atoi(p[2])
		return &message.ReadTimeout{ErrorMessage: tag, Consistency: primitive.ConsistencyLevelQuorum, Received: int32(rc), BlockFor: int32(bf), DataPresent: p[3] == "1"}
	case "wt":
		// wt:<write type>[:<received>:<block for>] - the documented policy looks at the write type only
		rc, bf := 1, 2
		if len(p) >= 4 {
			rc, _ = strconv.Atoi(p[2])
			bf, _ = strconv.Atoi(p[3])
		}
		return &message.WriteTimeout{ErrorMessage: tag, Consistency: primitive.ConsistencyLevelQuorum, Received: int32(rc), BlockFor: int32(bf), WriteType: primitive.WriteType(p[1])}
	case "un":
		return &message.Unavailable{ErrorMessage: tag, Consistency: primitive.ConsistencyLevelQuorum, Required: 2, Alive: 1}
	case "bs":
		return &message.IsBootstrapping{ErrorMessage: tag}
	case "se":
		return &message.ServerError{ErrorMessage: tag}
	case "ov":
		return &message.Overloaded{ErrorMessage: tag}
	case "tr":
		return &message.TruncateError{ErrorMessage: tag}
	case "rf":
		return &message.ReadFailure{ErrorMessage: tag, Consistency: primitive.ConsistencyLevelQuorum, Received: 1, BlockFor: 2, NumFailures: 1}
	case "wf":
		return &message.WriteFailure{ErrorMessage: tag, Consistency: primitive.ConsistencyLevelQuorum, Received: 1, BlockFor: 2, NumFailures: 1, WriteType: primitive.WriteTypeSimple}
	case "inv":
		return &message.Invalid{ErrorMessage: tag}
	case "syn":
		return &message.SyntaxError{ErrorMessage: tag}
	case "unauth":
		return &message.Unauthorized{ErrorMessage: tag}
	case "cfg":
		return &message.ConfigError{ErrorMessage: tag}
	case "ae":
		return &message.AlreadyExists{ErrorMessage: tag, Keyspace: "ks", Table: "t"}
	case "ff":
		return &message.FunctionFailure{ErrorMessage: tag, Keyspace: "ks", Function: "f", Arguments: []string{"int"}}
	case "pe":
		return &message.ProtocolError{ErrorMessage: tag}
	case "auth":
		return &message.AuthenticationError{ErrorMessage: tag}
	}
	return &message.ServerError{ErrorMessage: tag}
}

func runRetry(op string) (out string) {
	defer func() {
		if p := recover(); p != nil {
			out = fmt.Sprintf("panic:%v", p)
		}
	}()
	hosts, conns, warm, kind := 1, 1, 0, "qi"
	var down []int
	var script []string
	zhost := -1
	yhost := -1 // every connection of this host is lost and replaced before the request
	for _, t := range strings.Fields(op) {
		k, v := t[:1], t[2:]
		switch k {
		case "H":
			hosts, _ = strconv.Atoi(v)
		case "C":
			conns, _ = strconv.Atoi(v)
		case "W":
			warm, _ = strconv.Atoi(v)
		case "K":
			kind = v
		case "D":
			if v != "-" {
				for _, s := range strings.Split(v, ",") {
					i, _ := strconv.Atoi(s)
					down = append(down, i)
				}
			}
		case "X":
			script = append(script, v)
		case "Z":
			zhost, _ = strconv.Atoi(v)
		case "Y":
			yhost, _ = strconv.Atoi(v)
		}
	}
	eopts := e2e.Options{Hosts: hosts, NumConns: conns, IdempotentGraph: kind == "gi"}
	for _, x := range script {
		if x == "idle" { // heart-beats fast enough for the idle timeout to act within the case
			// (a heart-beat in progress delays the idle check by up to the connect timeout)
			eopts.HeartBeat, eopts.IdleTimeout, eopts.ConnectTimeout = 40*time.Millisecond, 200*time.Millisecond, 150*time.Millisecond
		}
	}
	if zhost >= 0 {
		eopts.ReconnectBase, eopts.ReconnectMax = 30*time.Second, 30*time.Second
	}
	if yhost >= 0 {
		eopts.ReconnectBase, eopts.ReconnectMax = 5*time.Millisecond, 10*time.Millisecond
	}
	env, err := e2e.Start(eopts)
	if err != nil {
		return "env-error:" + err.Error()
	}
	defer env.Close()
	ips := append([]string{}, env.IPs...)
	sort.Strings(ips)
	idx := map[string]int{}
	for i, ip := range ips {
		idx[ip] = i
	}
	var mu sync.Mutex
	measured := false
	muted := map[*fakecass.Conn]bool{}
	env.Cluster.OptionsHandler = func(c *fakecass.Conn, h *frame.Header) (fakecass.Response, bool) {
		mu.Lock()
		defer mu.Unlock()
		if muted[c] {
			return fakecass.Response{Kind: fakecass.RespSilent}, true
		}
		return fakecass.Response{}, false
	}
	var att, prep []string
	pos := 0
	var reprep []string // queued outcomes for re-prepare PREPAREs
	env.Cluster.Handler = func(rq *fakecass.Request) fakecass.Response {
		mu.Lock()
		defer mu.Unlock()
		h := fmt.Sprintf("h%d", idx[rq.Node])
		if rq.Header.OpCode == primitive.OpCodePrepare {
			q := ""
			if rq.Frame != nil {
				q = rq.Frame.Body.Message.(*message.Prepare).Query
			}
			if measured {
				prep = append(prep, h)
				sub := "ok"
				if len(reprep) > 0 {
					sub, reprep = reprep[0], reprep[1:]
				}
				switch sub {
				case "err":
					return fakecass.Response{Kind: fakecass.RespMsg, Msg: &message.ServerError{ErrorMessage: "reprepare failed"}}
				case "drop":
					return fakecass.Response{Kind: fakecass.RespClose}
				}
			}
			return fakecass.Response{Kind: fakecass.RespMsg, Msg: &message.PreparedResult{PreparedQueryId: pid(q)}}
		}
		if !measured {
			return fakecass.Response{Kind: fakecass.RespMsg, Msg: &message.VoidResult{}}
		}
		att = append(att, h)
		tok := "ok"
		if pos < len(script) {
			tok = script[pos]
		} else {
			tok = "silent"
		}
		tag := fmt.Sprintf("backend#%d", pos)
		pos++
		flagged := ""
		if i := strings.IndexByte(tok, '+'); i > 0 {
			tok, flagged = tok[:i], tok[i+1:]
		}
		withFlags := func(r fakecass.Response) fakecass.Response {
			switch flagged {
			case "w":
				r.Warnings = []string{"a warning"}
			case "t":
				id := primitive.UUID{1, 2, 3}
				r.TracingId = &id
			case "p":
				r.CustomPayload = map[string][]byte{"k": {1}}
			}
			return r
		}
		switch {
		case tok == "idle":
			muted[rq.Conn] = true
			return fakecass.Response{Kind: fakecass.RespSilent}
		case tok == "ok":
			return fakecass.Response{Kind: fakecass.RespMsg, Msg: &message.VoidResult{}}
		case tok == "drop":
			return fakecass.Response{Kind: fakecass.RespClose}
		case tok == "silent":
			return fakecass.Response{Kind: fakecass.RespSilent}
		case strings.HasPrefix(tok, "up:"): // UNPREPARED for the executed id, then the re-prepare outcome
			reprep = append(reprep, tok[3:])
			id := pid(stmtIdem)
			if rq.Frame != nil {
				if ex, ok := rq.Frame.Body.Message.(*message.Execute); ok {
					id = ex.QueryId
				}
			}
			return fakecass.Response{Kind: fakecass.RespMsg, Msg: &message.Unprepared{ErrorMessage: tag, Id: id}}
		case tok == "ue": // UNPREPARED for an id the proxy has no cached PREPARE for
			return fakecass.Response{Kind: fakecass.RespMsg, Msg: &message.Unprepared{ErrorMessage: tag, Id: []byte("0123456789abcdef")}}
		}
		return withFlags(fakecass.Response{Kind: fakecass.RespMsg, Msg: errFor(tok, tag)})
	}
	cl, err := env.Dial(primitive.ProtocolVersion4, "")
	if err != nil {
		return "dial-error:" + err.Error()
	}
	defer cl.Close()
	roundtrip := func(msg message.Message, mod func(f *frame.Frame)) *e2e.Reply {
		b, err := cl.Encode(7, msg, mod)
		if err != nil {
			return nil
		}
		if cl.WriteBytes(b) != nil {
			return nil
		}
		r, err := cl.Recv(3 * time.Second)
		if err != nil {
			return nil
		}
		return r
	}
	// prepare history
	prepare := func(q string) {
		roundtrip(&message.Prepare{Query: q}, nil)
	}
	var msg message.Message
	var mod func(f *frame.Frame)
	opts := &message.QueryOptions{Consistency: primitive.ConsistencyLevelQuorum}
	nprep := 0
	switch kind {
	case "qi":
		msg = &message.Query{Query: stmtIdem, Options: opts}
	case "qn":
		msg = &message.Query{Query: stmtNonIdem, Options: opts}
	case "qu":
		msg = &message.Query{Query: stmtBad, Options: opts}
	case "qs":
		msg = &message.Query{Query: stmtSelect, Options: opts}
	case "qc":
		msg = &message.Query{Query: stmtCounter, Options: opts}
	case "ei":
		prepare(stmtIdem)
		nprep = 1
		msg = &message.Execute{QueryId: pid(stmtIdem), Options: opts}
	case "en":
		prepare(stmtNonIdem)
		nprep = 1
		msg = &message.Execute{QueryId: pid(stmtNonIdem), Options: opts}
	case "eu":
		msg = &message.Execute{QueryId: pid("never prepared"), Options: opts}
	case "bi":
		msg = &message.Batch{Type: primitive.BatchTypeLogged, Consistency: primitive.ConsistencyLevelQuorum, Children: []*message.BatchChild{{Query: stmtIdem}, {Query: stmtIdem}}}
	case "bn":
		msg = &message.Batch{Type: primitive.BatchTypeLogged, Consistency: primitive.ConsistencyLevelQuorum, Children: []*message.BatchChild{{Query: stmtIdem}, {Query: stmtNonIdem}}}
	case "bp":
		prepare(stmtIdem)
		nprep = 1
		msg = &message.Batch{Type: primitive.BatchTypeLogged, Consistency: primitive.ConsistencyLevelQuorum, Children: []*message.BatchChild{{Query: stmtIdem}, {Id: pid(stmtIdem)}}}
	case "bq":
		prepare(stmtIdem)
		prepare(stmtNonIdem)
		nprep = 2
		msg = &message.Batch{Type: primitive.BatchTypeLogged, Consistency: primitive.ConsistencyLevelQuorum, Children: []*message.BatchChild{{Id: pid(stmtIdem)}, {Id: pid(stmtNonIdem)}}}
	case "br": // the non-idempotent child comes first, an idempotent one last
		prepare(stmtNonIdem)
		nprep = 1
		msg = &message.Batch{Type: primitive.BatchTypeLogged, Consistency: primitive.ConsistencyLevelQuorum, Children: []*message.BatchChild{{Id: pid(stmtNonIdem)}, {Query: stmtIdem}}}
	case "bu":
		msg = &message.Batch{Type: primitive.BatchTypeLogged, Consistency: primitive.ConsistencyLevelQuorum, Children: []*message.BatchChild{{Query: stmtIdem}, {Id: pid("never prepared")}}}
	case "gs": // a graph request whose text starts like a SELECT (graph requests are not idempotent unless configured so)
		msg = &message.Query{Query: "SELECT v FROM ks.t WHERE k = 1", Options: opts}
		mod = func(f *frame.Frame) { f.SetCustomPayload(map[string][]byte{"graph-source": []byte("g")}) }
	case "ge": // a graph EXECUTE of a prepared SELECT
		prepare(stmtSelect)
		nprep = 1
		msg = &message.Execute{QueryId: pid(stmtSelect), Options: opts}
		mod = func(f *frame.Frame) { f.SetCustomPayload(map[string][]byte{"graph-source": []byte("g")}) }
	case "gi", "gn":
		msg = &message.Query{Query: "g.V().drop()", Options: opts}
		mod = func(f *frame.Frame) { f.SetCustomPayload(map[string][]byte{"graph-source": []byte("g")}) }
	default:
		return "bad-kind"
	}
	// warm-ups move the round-robin start; prepares count as plans too
	for i := nprep; i < warm; i++ {
		roundtrip(&message.Query{Query: "SELECT * FROM ks.warm", Options: opts}, nil)
	}
	// take hosts down (their pools lose every connection; the listener stays closed)
	for _, d := range down {
		if d < len(ips) {
			env.Cluster.Node(ips[d]).Stop()
		}
	}
	if len(down) > 0 {
		time.Sleep(30 * time.Millisecond) // let the pool slots observe the closed connections
	}
	if yhost >= 0 && yhost < len(ips) {
		env.Cluster.Node(ips[yhost]).DropConns(func(c interface{ Registered() bool }) bool { return !c.Registered() })
		for i := 0; i < 400; i++ { // until the pool has its connections back
			n := 0
			for _, c := range env.Cluster.Node(ips[yhost]).Conns() {
				if !c.Registered() {
					n++
				}
			}
			if n >= conns {
				break
			}
			time.Sleep(5 * time.Millisecond)
		}
		time.Sleep(30 * time.Millisecond)
	}
	if zhost >= 0 && zhost < len(ips) {
		// the first connection of that host's pool is lost (its slot waits for the reconnect delay); the others stay
		cs := env.Cluster.Node(ips[zhost]).Conns()
		var data []*fakecass.Conn
		for _, c := range cs {
			if !c.Registered() {
				data = append(data, c)
			}
		}
		if len(data) > 0 {
			data[0].Close()
			time.Sleep(30 * time.Millisecond)
		}
	}
	mu.Lock()
	measured = true
	mu.Unlock()
	r := roundtrip(msg, mod)
	reply := "none"
	if r != nil {
		switch {
		case r.Frame == nil:
			reply = "undecodable"
		case r.Header.StreamId != 7:
			reply = fmt.Sprintf("wrong-stream:%d", r.Header.StreamId)
		default:
			switch m := r.Frame.Body.Message.(type) {
			case message.Error:
				txt := m.GetErrorMessage()
				switch {
				case strings.HasPrefix(txt, "Proxy exhausted query plan"):
					reply = "nomorehosts"
				case strings.HasPrefix(txt, "Proxy is unable to retry non-idempotent"):
					reply = "closed"
				case strings.HasPrefix(txt, "backend#"):
					reply = "fwd:" + txt[len("backend#"):]
				default:
					reply = "err:" + strings.ReplaceAll(txt, " ", "_")
				}
			default:
				reply = "ok"
			}
		}
		// a second frame for the same request would be a C01 violation
		if quiet, _ := cl.Quiet(30 * time.Millisecond); !quiet {
			reply += "+extra"
		}
	}
	mu.Lock()
	defer mu.Unlock()
	return fmt.Sprintf("att:%s prep:%s reply:%s", strings.Join(att, ","), strings.Join(prep, ","), reply)
}

var retryOutcomes = []string{"ok", "ok", "rt:2:2:0", "rt:1:2:0", "rt:2:2:1", "rt:3:2:0", "wt:BATCH_LOG", "wt:SIMPLE", "wt:BATCH", "wt:CAS", "wt:COUNTER", "wt:UNLOGGED_BATCH",
	"wt:BATCH_LOG:0:2", "wt:BATCH_LOG:0:1", "wt:BATCH_LOG:2:2", "wt:SIMPLE:0:3", "wt:BATCH:0:1", "rt:0:1:0", "rt:0:2:1",
	"un", "un", "bs", "bs", "se", "ov", "tr", "rf", "wf", "inv", "syn", "unauth", "cfg", "ae", "ff", "drop", "drop", "drop", "ue", "pe"}
var retryKinds = []string{"qi", "qn", "qu", "qs", "qc", "ei", "en", "eu", "bi", "bn", "bp", "bq", "bu", "br", "gi", "gn", "gs", "ge"}

func genRetry(e *emitter, r *rng.R, n int, tier string) {
	corpus := []string{
		"H:3 C:1 W:0 K:qi D:- X:un X:un X:ok",
		"H:3 C:1 W:1 K:qn D:- X:wt:BATCH_LOG",
		"H:3 C:1 W:1 K:qn D:- X:wt:BATCH_LOG:0:2",
		"H:2 C:1 W:0 K:bn D:- X:wt:BATCH_LOG:0:1 X:ok",
		"H:2 C:1 W:0 K:bu D:- X:wt:BATCH_LOG:0:2 X:ok",
		"H:2 C:1 W:0 K:qc D:- X:wt:BATCH_LOG:0:3 X:ok",
		"H:3 C:1 W:2 K:qn D:- X:drop",
		"H:2 C:1 W:0 K:qi D:- X:drop X:drop",
		"H:3 C:1 W:0 K:qi D:- X:rt:2:2:0 X:rt:2:2:0",
		"H:3 C:1 W:0 K:ei D:- X:up:ok X:ok",
		"H:3 C:1 W:0 K:ei D:- X:up:err X:ok",
		"H:3 C:1 W:0 K:en D:- X:up:drop",
		"H:4 C:2 W:3 K:bi D:1 X:se X:ov X:tr X:ok",
		"H:2 C:1 W:0 K:eu D:- X:se",
		"H:3 C:1 W:0 K:gn D:- X:se",
		"H:3 C:1 W:0 K:gi D:- X:se X:ok",
		"H:3 C:1 W:0 K:gs D:- X:se X:ok",
		"H:3 C:1 W:1 K:br D:- X:wt:BATCH_LOG X:ok",
		"H:3 C:1 W:1 K:br D:- X:se X:ok",
		"H:3 C:1 W:0 K:ge D:- X:ov X:ok",
		"H:3 C:1 W:0 K:qi D:- X:ov+w X:se+t X:ok",
		"H:3 C:1 W:0 K:qi D:- X:un+p X:ok",
		"H:2 C:1 W:0 K:qi D:- X:idle X:ok",
		"H:2 C:1 W:0 K:qn D:- X:idle",
		"H:3 C:2 W:0 K:qi D:- Z:0 X:ok",
		"H:2 C:2 W:1 K:qi D:- Z:1 X:se X:ok",
		"H:1 C:2 W:0 K:qn D:- Z:0 X:ok",
		"H:2 C:1 W:0 K:qi D:- Y:0 X:idle X:ok",
		"H:3 C:2 W:1 K:qi D:- Y:1 X:idle X:ok",
		"H:2 C:1 W:0 K:qn D:- Y:0 X:ok",
	}
	ops := append([]string{}, corpus...)
	defer func() { e.emitAll(ops, 12) }()
	for i := 0; i < n; i++ {
		rr := r.Fork(uint64(i))
		h := 1 + rr.Intn(4)
		c := 1 + rr.Intn(2)
		kind := rr.Pick(retryKinds)
		var parts []string
		parts = append(parts, fmt.Sprintf("H:%d", h), fmt.Sprintf("C:%d", c), fmt.Sprintf("W:%d", rr.Intn(h+1)+map[bool]int{true: 2, false: 0}[kind == "bq"]), "K:"+kind)
		d := "-"
		if h > 1 && rr.Chance(1, 5) {
			d = strconv.Itoa(rr.Intn(h))
		}
		parts = append(parts, "D:"+d)
		contIdem := []string{"un", "bs", "bs", "se", "ov", "tr", "drop", "drop", "rt:2:2:0", "wt:BATCH_LOG", "rt:5:3:0"}
		contNon := []string{"un", "bs", "bs", "rt:2:2:0", "rt:3:3:0", "bs"}
		isIdem := map[string]bool{"qi": true, "qs": true, "ei": true, "bi": true, "bp": true, "gi": true}[kind]
		for j := 0; j < 2*h+2; j++ {
			o := rr.Pick(retryOutcomes)
			if rr.Chance(3, 4) {
				if isIdem {
					o = rr.Pick(contIdem)
				} else {
					o = rr.Pick(contNon)
				}
			}
			if (kind[0] == 'e') && rr.Chance(1, 6) {
				o = "up:" + rr.Pick([]string{"ok", "ok", "err", "drop"})
			} else if rr.Chance(1, 7) && o != "ok" && o != "drop" && o != "ue" {
				o += rr.Pick([]string{"+w", "+t", "+p"})
			} else if rr.Chance(1, 25) {
				o = "idle"
			}
			parts = append(parts, "X:"+o)
		}
		if rr.Chance(1, 12) {
			parts = append(parts[:5], append([]string{fmt.Sprintf("Y:%d", rr.Intn(h))}, parts[5:]...)...)
		} else if c == 2 && rr.Chance(1, 5) {
			parts = append(parts[:5], append([]string{fmt.Sprintf("Z:%d", rr.Intn(h))}, parts[5:]...)...)
		}
		ops = append(ops, strings.Join(parts, " "))
	}
}
