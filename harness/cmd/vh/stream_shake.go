package main

import (
	"bytes"
	"context"
	"encoding/binary"
	"errors"
	"fmt"
	"io"
	"net"
	"strconv"
	"strings"
	"sync"
	"time"

	"github.com/datastax/cql-proxy/proxycore"
	"github.com/datastax/go-cassandra-native-protocol/frame"
	"github.com/datastax/go-cassandra-native-protocol/message"
	"github.com/datastax/go-cassandra-native-protocol/primitive"
	"verifharness/internal/fakecass"
	"verifharness/internal/rng"
)

// shake: the real proxycore.ClientConn.Handshake (what every pooled and control connection starts with) against
// a backend that answers from a script, one entry per frame it receives.
// op:   V:<wanted version> H:<1 the connection has an event handler|0> A:<1 credentials configured|0> S:<script, comma separated>
//         R ready | Ap / Ad authenticate (password / DSE authenticator) | Cg / Cb challenge PLAIN-START / something else
//         | S auth success | E "Invalid or unsupported protocol version" | X another error | O another message
//       a script that runs out: the backend stops answering
// real: sent=<what the backend received: startup:<v> auth:<PLAIN|token> register ...> out=<ok:<v>|authExpected|cqlError|unexpected|badChallenge|timeout|...>

func init() { streams["shake"] = stream{gen: genShake, run: runShake} }

type shakeHandler struct{}

func (shakeHandler) OnEvent(*frame.Frame) {}

func runShake(op string) (out string) {
	defer func() {
		if p := recover(); p != nil {
			out = fmt.Sprintf("panic:%v", strings.ReplaceAll(fmt.Sprint(p), " ", "_"))
		}
	}()
	version, handler, auth := 4, false, false
	var script []string
	for _, t := range strings.Fields(op) {
		switch {
		case strings.HasPrefix(t, "V:"):
			version, _ = strconv.Atoi(t[2:])
		case strings.HasPrefix(t, "H:"):
			handler = t[2:] == "1"
		case strings.HasPrefix(t, "A:"):
			auth = t[2:] == "1"
		case strings.HasPrefix(t, "S:") && len(t) > 2:
			script = strings.Split(t[2:], ",")
		}
	}
	ln, err := net.Listen("tcp", "127.0.0.1:0")
	if err != nil {
		return "env-error"
	}
	defer ln.Close()
	var mu sync.Mutex
	var sent []string
	go func() {
		c, err := ln.Accept()
		if err != nil {
			return
		}
		defer c.Close()
		codec := fakecass.Codec("")
		for i := 0; ; i++ {
			first := make([]byte, 1)
			if _, err := io.ReadFull(c, first); err != nil {
				return
			}
			v := int(first[0] & 0x7f)
			hl := 9
			if v < 3 {
				hl = 8
			}
			hdr := make([]byte, hl)
			hdr[0] = first[0]
			if _, err := io.ReadFull(c, hdr[1:]); err != nil {
				return
			}
			body := make([]byte, binary.BigEndian.Uint32(hdr[hl-4:]))
			if _, err := io.ReadFull(c, body); err != nil {
				return
			}
			opcode := primitive.OpCode(hdr[hl-5])
			tok := fmt.Sprintf("opcode%d", opcode)
			switch opcode {
			case primitive.OpCodeStartup:
				tok = fmt.Sprintf("startup:%d", v)
			case primitive.OpCodeRegister:
				tok = "register"
			case primitive.OpCodeAuthResponse:
				tok = "auth:token"
				if len(body) >= 4 && string(body[4:]) == "PLAIN" {
					tok = "auth:PLAIN"
				}
			}
			mu.Lock()
			sent = append(sent, tok)
			mu.Unlock()
			if i >= len(script) {
				continue // silence
			}
			var msg message.Message
			switch script[i] {
			case "R":
				msg = &message.Ready{}
			case "Ap":
				msg = &message.Authenticate{Authenticator: "org.apache.cassandra.auth.PasswordAuthenticator"}
			case "Ad":
				msg = &message.Authenticate{Authenticator: "com.datastax.bdp.cassandra.auth.DseAuthenticator"}
			case "Cg":
				msg = &message.AuthChallenge{Token: []byte("PLAIN-START")}
			case "Cb":
				msg = &message.AuthChallenge{Token: []byte("GSSAPI-START")}
			case "S":
				msg = &message.AuthSuccess{}
			case "E":
				msg = &message.ProtocolError{ErrorMessage: fmt.Sprintf("Invalid or unsupported protocol version (%d); supported versions are (3/v3, 4/v4)", v)}
			case "X":
				msg = &message.ServerError{ErrorMessage: "node is not ready"}
			default:
				msg = &message.Supported{Options: map[string][]string{"CQL_VERSION": {"3.4.5"}}}
			}
			// a node answers in the version of the request when it speaks it, in its own highest otherwise
			rv := primitive.ProtocolVersion(v)
			if script[i] == "E" || v < 3 {
				rv = primitive.ProtocolVersion4
				if v < 4 {
					rv = primitive.ProtocolVersion3
				}
			}
			stream := int16(binary.BigEndian.Uint16(hdr[2:4]))
			if v < 3 {
				stream = int16(int8(hdr[2]))
			}
			var buf bytes.Buffer
			if err := codec.EncodeFrame(frame.NewFrame(rv, stream, msg), &buf); err != nil {
				return
			}
			if _, err := c.Write(buf.Bytes()); err != nil {
				return
			}
		}
	}()
	ctx, cancel := context.WithTimeout(context.Background(), 2*time.Second)
	defer cancel()
	cfg := proxycore.ClientConnConfig{}
	if handler {
		cfg.Handler = shakeHandler{}
	}
	conn, err := proxycore.ConnectClient(ctx, proxycore.NewEndpoint(ln.Addr().String()), cfg)
	if err != nil {
		return "env-error:connect"
	}
	defer conn.Close()
	var a proxycore.Authenticator
	if auth {
		a = proxycore.NewPasswordAuth("user", "pw")
	}
	hctx, hcancel := context.WithTimeout(context.Background(), 250*time.Millisecond)
	got, herr := conn.Handshake(hctx, primitive.ProtocolVersion(version), a)
	hcancel()
	res := ""
	var cqlErr *proxycore.CqlError
	var unexp *proxycore.UnexpectedResponse
	switch {
	case herr == nil:
		res = fmt.Sprintf("ok:%d", got)
	case errors.Is(herr, proxycore.AuthExpected):
		res = "authExpected"
	case errors.As(herr, &cqlErr):
		res = "cqlError"
	case errors.As(herr, &unexp):
		res = "unexpected"
	case strings.Contains(herr.Error(), "incorrect SASL challenge"):
		res = "badChallenge"
	case errors.Is(herr, context.DeadlineExceeded):
		res = "timeout"
	default:
		res = "other:" + strings.ReplaceAll(herr.Error(), " ", "_")
	}
	time.Sleep(5 * time.Millisecond)
	mu.Lock()
	defer mu.Unlock()
	return "sent=" + strings.Join(sent, ",") + " out=" + res
}

func genShake(e *emitter, r *rng.R, n int, tier string) {
	var ops []string
	defer func() { e.emitAll(ops, 16) }()
	add := func(v int, h, a bool, s ...string) {
		ops = append(ops, fmt.Sprintf("V:%d H:%d A:%d S:%s", v, b2i(h), b2i(a), strings.Join(s, ",")))
	}
	for _, h := range []bool{true, false} {
		for _, v := range []int{3, 4, 5, 65, 66} {
			add(v, h, true, "R", "R")
			add(v, h, true, "Ap", "S", "R")
			add(v, h, true, "Ad", "Cg", "S", "R")
			add(v, h, true, "Ad", "S", "R")
			add(v, h, true, "Ap", "Cg", "S", "R")
			add(v, h, true, "Ad", "Cb", "S", "R")
			add(v, h, false, "Ap", "S", "R")
			add(v, h, true, "E", "R", "R")
			add(v, h, true, "E", "E", "Ad", "Cg", "S", "R")
			add(v, h, true, "E", "E", "E", "E", "E", "E")
			add(v, h, true, "X")
			add(v, h, true, "R", "X")
			add(v, h, true, "Ap", "X")
			add(v, h, true, "O")
			add(v, h, true)
			add(v, h, true, "Ap", "S")
		}
	}
	toks := []string{"R", "Ap", "Ad", "Cg", "Cb", "S", "E", "X", "O", "R", "S", "E"}
	for i := 0; i < n; i++ {
		rr := r.Fork(uint64(i))
		var s []string
		for j := 0; j < rr.Intn(7); j++ {
			s = append(s, rr.Pick(toks))
		}
		add([]int{3, 4, 5, 65, 66}[rr.Intn(5)], rr.Bool(), rr.Intn(4) > 0, s...)
	}
}
