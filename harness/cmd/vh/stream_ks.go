package main

import (
	"fmt"
	"strconv"
	"strings"
	"sync"
	"time"

	"github.com/datastax/go-cassandra-native-protocol/message"
	"github.com/datastax/go-cassandra-native-protocol/primitive"
	"verifharness/internal/e2e"
	"verifharness/internal/fakecass"
	"verifharness/internal/rng"
)

// ks: USE / data-request histories over several clients with different versions and compressions.
// op:   clients "C<i>:<version>:<compression|->" then actions
//         u<i>:<keyspace text as written, hex>   client i sends USE <text>
//         q<i>                                    client i sends a data request (forwarded)
//         e<i>                                    client i PREPAREs a statement and EXECUTEs it (the EXECUTE is the data request)
//         s<i>:<statement, hex>                   client i sends a QUERY on a virtual system table (well-formed or not): the proxy answers it itself, once
//         k                                       every pooled backend connection is lost (the pools reconnect)
//       keyspaces whose canonical name starts with "missing" do not exist on the backend
// real: one token per action: USE -> "set:<keyspace named in the reply>" | "err:<message class>" ;
//       data -> "at:<backend connection keyspace>/<version>/<compression>" | other ;
//       system -> "local:<rows|invalid|error|other>" [+extra a second frame came] [+fwd something reached a backend]

func init() { streams["ks"] = stream{gen: genKs, run: runKs} }

func runKs(op string) (out string) {
	defer func() {
		if p := recover(); p != nil {
			out = fmt.Sprintf("panic:%v", p)
		}
	}()
	type cdef struct {
		version primitive.ProtocolVersion
		comp    string
	}
	var defs []cdef
	var acts []string
	for _, t := range strings.Fields(op) {
		if strings.HasPrefix(t, "C") {
			p := strings.Split(t, ":")
			v, _ := strconv.Atoi(p[1])
			comp := p[2]
			if comp == "-" {
				comp = ""
			}
			defs = append(defs, cdef{primitive.ProtocolVersion(v), comp})
		} else {
			acts = append(acts, t)
		}
	}
	env, err := e2e.Start(e2e.Options{Hosts: 2, NumConns: 1, MaxVersion: primitive.ProtocolVersion4, Version: primitive.ProtocolVersion4})
	if err != nil {
		return "env-error:" + err.Error()
	}
	defer env.Close()
	for _, m := range []string{"missing", "missing1", "Missing", "missing_ks"} {
		env.Cluster.MissingKeyspaces[m] = true
	}
	var mu sync.Mutex
	seen := map[int]string{}
	env.Cluster.Handler = func(rq *fakecass.Request) fakecass.Response {
		mu.Lock()
		defer mu.Unlock()
		// the version is the one the backend connection did STARTUP with (a frame of another version on it is a
		// protocol violation a real node answers with an error)
		v := fmt.Sprint(int(rq.Conn.Version))
		if rq.Conn.Version != rq.Header.Version {
			v = fmt.Sprintf("%d!frame-v%d", rq.Conn.Version, rq.Header.Version)
		}
		tok := tokenOf(rq)
		if rq.Frame != nil {
			switch m := rq.Frame.Body.Message.(type) {
			case *message.Prepare: // the id names the token, so that the EXECUTE can be told apart
				return fakecass.Response{Kind: fakecass.RespMsg, Msg: &message.PreparedResult{PreparedQueryId: []byte(fmt.Sprintf("%016d", tokenOfText(m.Query)))}}
			case *message.Execute:
				tok, _ = strconv.Atoi(strings.TrimLeft(string(m.QueryId), "0"))
			}
		}
		seen[tok] = fmt.Sprintf("at:%s/%s/%s", hexs(rq.Keyspace), v, rq.Compression)
		return fakecass.Response{Kind: fakecass.RespMsg, Msg: &message.VoidResult{}}
	}
	clients := make([]*e2e.Client, len(defs))
	for i, d := range defs {
		c, err := env.Dial(d.version, d.comp)
		if err != nil {
			return "dial-error:" + err.Error()
		}
		defer c.Close()
		clients[i] = c
	}
	var res []string
	token := 0
	for _, a := range acts {
		if a == "k" {
			for _, ip := range env.IPs {
				env.Cluster.Node(ip).DropConns(func(c interface{ Registered() bool }) bool { return !c.Registered() })
			}
			time.Sleep(150 * time.Millisecond) // the pools reconnect (base delay 20 ms)
			continue
		}
		p := strings.SplitN(a[1:], ":", 2)
		i, _ := strconv.Atoi(p[0])
		if i >= len(clients) {
			continue
		}
		cl := clients[i]
		switch a[0] {
		case 'u':
			ks := string(unhex(p[1]))
			_ = cl.Send(3, &message.Query{Query: "USE " + ks, Options: &message.QueryOptions{Consistency: primitive.ConsistencyLevelOne}})
			r, err := cl.Recv(4 * time.Second)
			switch {
			case err != nil:
				res = append(res, "none")
			case r.Frame == nil:
				res = append(res, "undecodable")
			default:
				switch m := r.Frame.Body.Message.(type) {
				case *message.SetKeyspaceResult:
					res = append(res, "set:"+hexs(m.Keyspace))
				case message.Error:
					if strings.Contains(m.GetErrorMessage(), "does not exist") {
						res = append(res, "err:backend")
					} else {
						res = append(res, "err:other")
					}
				default:
					res = append(res, "other")
				}
				if quiet, _ := cl.Quiet(25 * time.Millisecond); !quiet { // a second frame for one USE
					res[len(res)-1] += "+extra"
				}
			}
		case 's':
			before := env.Cluster.LogLen()
			_ = cl.Send(6, &message.Query{Query: string(unhex(p[1])), Options: &message.QueryOptions{Consistency: primitive.ConsistencyLevelOne}})
			r, err := cl.Recv(4 * time.Second)
			tok := "none"
			if err == nil && r.Frame != nil {
				switch m := r.Frame.Body.Message.(type) {
				case *message.RowsResult:
					tok = "local:rows"
				case *message.Invalid:
					tok = "local:invalid"
				case message.Error:
					_ = m
					tok = "local:error"
				default:
					tok = "local:other"
				}
				if quiet, _ := cl.Quiet(30 * time.Millisecond); !quiet {
					tok += "+extra"
				}
				if env.Cluster.LogLen() > before {
					tok += "+fwd"
				}
			}
			res = append(res, tok)
		case 'q', 'e':
			token++
			q := fmt.Sprintf("INSERT INTO t (k) VALUES (1) /*t%d*/", token)
			if a[0] == 'e' {
				_ = cl.Send(5, &message.Prepare{Query: q})
				pr, err := cl.Recv(4 * time.Second)
				if err != nil || pr.Frame == nil {
					res = append(res, "prepare-unanswered")
					continue
				}
				pm, ok := pr.Frame.Body.Message.(*message.PreparedResult)
				if !ok {
					// the PREPARE itself is refused when the session cannot be had: the same answer as for a query
					if m, isErr := pr.Frame.Body.Message.(message.Error); isErr {
						res = append(res, "notforwarded:"+strings.ReplaceAll(m.GetErrorMessage(), " ", "_"))
					} else {
						res = append(res, "prepare-other")
					}
					continue
				}
				_ = cl.Send(4, &message.Execute{QueryId: pm.PreparedQueryId, ResultMetadataId: pm.ResultMetadataId, Options: &message.QueryOptions{Consistency: primitive.ConsistencyLevelOne}})
			} else {
				_ = cl.Send(4, &message.Query{Query: q, Options: &message.QueryOptions{Consistency: primitive.ConsistencyLevelOne}})
			}
			r, err := cl.Recv(4 * time.Second)
			mu.Lock()
			s, ok := seen[token]
			mu.Unlock()
			switch {
			case err != nil:
				res = append(res, "none")
			case !ok:
				if r.Frame != nil {
					if m, isErr := r.Frame.Body.Message.(message.Error); isErr {
						res = append(res, "notforwarded:"+strings.ReplaceAll(m.GetErrorMessage(), " ", "_"))
						continue
					}
				}
				res = append(res, "notforwarded")
			default:
				res = append(res, s)
			}
		}
	}
	return strings.Join(res, " ")
}

func hexs(s string) string { return fmt.Sprintf("%x", s) }
func unhex(s string) []byte {
	b := make([]byte, len(s)/2)
	for i := range b {
		n, _ := strconv.ParseUint(s[2*i:2*i+2], 16, 8)
		b[i] = byte(n)
	}
	return b
}

func genKs(e *emitter, r *rng.R, n int, tier string) {
	var ops []string
	defer func() { e.emitAll(ops, 8) }()
	names := []string{"app", "App", "APP", "\"App\"", "\"app\"", "other", "\"Mixed Case\"", "ks_1", "missing", "\"Missing\"", "missing1", "\"we\"\"ird\"", "system_x", "Ks2"}
	for i := 0; i < n; i++ {
		rr := r.Fork(uint64(i))
		l := 1 + rr.Intn(3)
		var parts []string
		for c := 0; c < l; c++ {
			parts = append(parts, fmt.Sprintf("C%d:%d:%s", c, []int{3, 4, 4}[rr.Intn(3)], rr.Pick([]string{"-", "-", "lz4", "snappy"})))
		}
		sysq := []string{"SELECT * FROM system.local", "SELECT DISTINCT key FROM system.local", "SELECT JSON * FROM system.local", "SELECT key, FROM system.peers", "SELECT nope FROM system.peers",
			"SELECT count( FROM system.local", "SELECT key AS FROM system.local", "SELECT peer AS p FROM system.peers", "SELECT * FROM system.peers WHERE", "SELECT 'x' FROM system.local", "SELECT key FROM system.local LIMIT"}
		for j := 0; j < 3+rr.Intn(8); j++ {
			switch c := rr.Intn(14); {
			case c >= 12:
				parts = append(parts, fmt.Sprintf("s%d:%s", rr.Intn(l), hexs(rr.Pick(sysq))))
			case c < 5:
				nm := rr.Pick(names)
				if rr.Intn(5) == 0 { // the statement terminator is not part of the name
					nm += rr.Pick([]string{";", " ;", "; ", " ; "})
				}
				parts = append(parts, fmt.Sprintf("u%d:%s", rr.Intn(l), hexs(nm)))
			case c < 9:
				parts = append(parts, fmt.Sprintf("q%d", rr.Intn(l)))
			case c < 11:
				parts = append(parts, fmt.Sprintf("e%d", rr.Intn(l)))
			default:
				parts = append(parts, "k")
			}
		}
		ops = append(ops, strings.Join(parts, " "))
	}
}

func tokenOfText(q string) int {
	if i := strings.Index(q, "/*t"); i >= 0 {
		rest := q[i+3:]
		if j := strings.Index(rest, "*/"); j >= 0 {
			n, _ := strconv.Atoi(rest[:j])
			return n
		}
	}
	return -1
}
