module verifharness

go 1.24.2

require (
	github.com/datastax/cql-proxy v0.0.0
	github.com/datastax/go-cassandra-native-protocol v0.0.0-20220706104457-5e8aad05cf90
	golang.org/x/tools v0.29.0
)

require (
	github.com/alecthomas/kong v0.2.17 // indirect
	github.com/apapsch/go-jsonmerge/v2 v2.0.0 // indirect
	github.com/datastax/astra-client-go/v2 v2.2.54 // indirect
	github.com/deepmap/oapi-codegen v1.12.4 // indirect
	github.com/golang/snappy v0.0.3 // indirect
	github.com/google/uuid v1.3.0 // indirect
	github.com/hashicorp/golang-lru v0.5.4 // indirect
	github.com/pierrec/lz4/v4 v4.0.3 // indirect
	github.com/pkg/errors v0.9.1 // indirect
	go.uber.org/atomic v1.8.0 // indirect
	go.uber.org/multierr v1.7.0 // indirect
	go.uber.org/zap v1.17.0 // indirect
	golang.org/x/mod v0.22.0 // indirect
	golang.org/x/sync v0.10.0 // indirect
	gopkg.in/yaml.v2 v2.4.0 // indirect
)

replace github.com/datastax/cql-proxy => /repo
