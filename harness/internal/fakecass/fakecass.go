// Package fakecass is a scripted Cassandra-like backend cluster on loopback addresses, built on
// the *reference* go-cassandra-native-protocol codec (not on cql-proxy's own mock cluster), so
// that what the proxy sends and receives is recorded byte for byte and judged independently.
package fakecass

import (
	"bytes"
	"encoding/binary"
	"errors"
	"fmt"
	"io"
	"net"
	"sort"
	"strings"
	"sync"
	"sync/atomic"
	"time"

	"github.com/datastax/go-cassandra-native-protocol/compression/lz4"
	"github.com/datastax/go-cassandra-native-protocol/compression/snappy"
	"github.com/datastax/go-cassandra-native-protocol/datatype"
	"github.com/datastax/go-cassandra-native-protocol/frame"
	"github.com/datastax/go-cassandra-native-protocol/message"
	"github.com/datastax/go-cassandra-native-protocol/primitive"
)

var (
	plainCodec = frame.NewRawCodec()
	compCodecs = map[string]frame.RawCodec{
		"lz4":    frame.NewRawCodecWithCompression(&lz4.Compressor{}),
		"snappy": frame.NewRawCodecWithCompression(&snappy.Compressor{}),
	}
)

// Codec returns the reference codec for a compression name ("" = none).
func Codec(compression string) frame.RawCodec {
	if c, ok := compCodecs[strings.ToLower(compression)]; ok {
		return c
	}
	return plainCodec
}

type Conn struct {
	ID          int
	Node        *Node
	c           net.Conn
	wmu         sync.Mutex
	mu          sync.Mutex
	keyspace    string
	Version     primitive.ProtocolVersion
	Compression string
	registered  bool
	closed      bool
	authStep    int // 0: not authenticated; with Cluster.Auth set, requests before AUTH_SUCCESS are refused
}

func (c *Conn) Keyspace() string { c.mu.Lock(); defer c.mu.Unlock(); return c.keyspace }
func (c *Conn) Registered() bool { c.mu.Lock(); defer c.mu.Unlock(); return c.registered }

// Request is one non-handshake frame a node received.
type Request struct {
	Seq         int
	Conn        *Conn
	Node        string // node IP
	Header      frame.Header
	RawHeader   []byte       // the 9 header bytes as received
	RawBody     []byte       // body bytes as received (compressed if the connection is)
	Frame       *frame.Frame // decoded with the reference codec; nil if undecodable
	DecodeErr   error
	Keyspace    string // the connection's keyspace when the frame arrived
	Compression string
	mu          sync.Mutex
	sent        []byte // the bytes written in answer to this request
}

// Sent returns the raw bytes this node wrote in answer to the request.
func (r *Request) Sent() []byte { r.mu.Lock(); defer r.mu.Unlock(); return append([]byte{}, r.sent...) }

type RespKind int

const (
	RespMsg    RespKind = iota // encode Msg with the connection's codec on the request's stream
	RespRaw                    // write Raw as is
	RespSilent                 // never answer
	RespClose                  // close the connection without answering
)

type Response struct {
	Kind   RespKind
	Msg    message.Message
	Raw    []byte
	Stream *int16 // override the stream id (hostile backend)
	Delay  time.Duration
	Then   func() // runs after the response was written
	// Tracing/Warnings/CustomPayload for RespMsg
	TracingId     *primitive.UUID
	Warnings      []string
	CustomPayload map[string][]byte
	NoCompress    bool // send the body uncompressed even if compression was negotiated
}

type Node struct {
	IP     string
	DC     string
	cl     *Cluster
	mu     sync.Mutex
	ln     net.Listener
	conns  map[*Conn]struct{}
	up     bool
	Listed bool // appears in system.local/system.peers of the other nodes
	// maxVersion, when set, is the highest protocol version this node speaks (an older node in a mixed cluster).
	maxVersion int32
}

// SetMaxVersion makes the node speak nothing above v from now on (0: whatever the cluster speaks).
func (n *Node) SetMaxVersion(v primitive.ProtocolVersion) { atomic.StoreInt32(&n.maxVersion, int32(v)) }

type Cluster struct {
	Port       int
	MaxVersion primitive.ProtocolVersion
	DSEVersion string
	mu         sync.Mutex
	nodes      map[string]*Node
	order      []string
	seq        int
	connSeq    int
	log        []*Request
	// Handler answers every frame that is not part of the handshake / system bookkeeping.
	Handler func(rq *Request) Response
	// MissingKeyspaces makes `USE ks` fail with an Invalid error.
	MissingKeyspaces map[string]bool
	// SlowKeyspaces makes `USE ks` take that long to be answered (the connection stays responsive meanwhile).
	SlowKeyspaces map[string]time.Duration
	OnConnect        func(c *Conn)
	// Auth makes every connection authenticate after STARTUP: "password" (AUTHENTICATE, AUTH_RESPONSE, AUTH_SUCCESS) or
	// "dse" (DseAuthenticator: the mechanism name first, then an AUTH_CHALLENGE round trip). Credentials: user / pw.
	Auth string
	// StartupHandler may override the answer to STARTUP (a node that is not ready to serve yet).
	StartupHandler func(c *Conn, header *frame.Header) (Response, bool)
	// OptionsHandler may override the answer to OPTIONS (heart-beats).
	OptionsHandler func(c *Conn, header *frame.Header) (Response, bool)
	// AfterRegister runs right after a REGISTER was acknowledged (an event can follow immediately).
	AfterRegister func(c *Conn)
	// SystemHandler may override the answer to the proxy's topology queries (broken backends).
	SystemHandler func(c *Conn, query string) (Response, bool)
}

func NewCluster(port int) *Cluster {
	return &Cluster{Port: port, MaxVersion: primitive.ProtocolVersion4, nodes: map[string]*Node{}, MissingKeyspaces: map[string]bool{}}
}

func (cl *Cluster) Node(ip string) *Node { cl.mu.Lock(); defer cl.mu.Unlock(); return cl.nodes[ip] }

func (cl *Cluster) NodeIPs() []string {
	cl.mu.Lock()
	defer cl.mu.Unlock()
	return append([]string{}, cl.order...)
}

// AddNode creates a node; it is listed in the topology and started.
func (cl *Cluster) AddNode(ip, dc string) (*Node, error) {
	n := &Node{IP: ip, DC: dc, cl: cl, conns: map[*Conn]struct{}{}, Listed: true}
	cl.mu.Lock()
	cl.nodes[ip] = n
	cl.order = append(cl.order, ip)
	cl.mu.Unlock()
	return n, n.Start()
}

// Delist removes a node from the topology tables (it keeps running unless stopped).
func (cl *Cluster) Delist(ip string) {
	cl.mu.Lock()
	defer cl.mu.Unlock()
	if n := cl.nodes[ip]; n != nil {
		n.Listed = false
	}
}

func (cl *Cluster) Relist(ip string) {
	cl.mu.Lock()
	defer cl.mu.Unlock()
	if n := cl.nodes[ip]; n != nil {
		n.Listed = true
	}
}

func (cl *Cluster) Shutdown() {
	cl.mu.Lock()
	nodes := make([]*Node, 0, len(cl.nodes))
	for _, n := range cl.nodes {
		nodes = append(nodes, n)
	}
	cl.mu.Unlock()
	for _, n := range nodes {
		n.Stop()
	}
}

// Log returns a snapshot of the received requests.
func (cl *Cluster) Log() []*Request {
	cl.mu.Lock()
	defer cl.mu.Unlock()
	return append([]*Request{}, cl.log...)
}

// SetAfterRegister installs (or clears) the AfterRegister hook while nodes are serving.
func (cl *Cluster) SetAfterRegister(f func(c *Conn)) { cl.mu.Lock(); cl.AfterRegister = f; cl.mu.Unlock() }

// SetSlowKeyspace makes `USE <name>` take d to be answered.
func (cl *Cluster) SetSlowKeyspace(name string, d time.Duration) {
	cl.mu.Lock()
	if cl.SlowKeyspaces == nil {
		cl.SlowKeyspaces = map[string]time.Duration{}
	}
	cl.SlowKeyspaces[name] = d
	cl.mu.Unlock()
}

// SetMissingKeyspace makes `USE <name>` fail from now on.
func (cl *Cluster) SetMissingKeyspace(name string) { cl.mu.Lock(); cl.MissingKeyspaces[name] = true; cl.mu.Unlock() }

// SetStartupHandler installs a handler that may answer STARTUP itself.
func (cl *Cluster) SetStartupHandler(f func(c *Conn, header *frame.Header) (Response, bool)) {
	cl.mu.Lock()
	cl.StartupHandler = f
	cl.mu.Unlock()
}

// SetOnConnect installs a callback that sees every accepted connection before it is served.
func (cl *Cluster) SetOnConnect(f func(c *Conn)) { cl.mu.Lock(); cl.OnConnect = f; cl.mu.Unlock() }

func (cl *Cluster) LogLen() int { cl.mu.Lock(); defer cl.mu.Unlock(); return len(cl.log) }

// Event sends an EVENT frame to every connection that REGISTERed (the proxy's control connection).
func (cl *Cluster) Event(evt message.Message) int {
	n := 0
	for _, c := range cl.allConns() {
		if c.Registered() {
			f := frame.NewFrame(c.Version, -1, evt)
			c.maybeCompress(f)
			if c.write(func(w io.Writer) error { return Codec(c.Compression).EncodeFrame(f, w) }) == nil {
				n++
			}
		}
	}
	return n
}

func (cl *Cluster) allConns() []*Conn {
	cl.mu.Lock()
	nodes := make([]*Node, 0, len(cl.nodes))
	for _, ip := range cl.order {
		nodes = append(nodes, cl.nodes[ip])
	}
	cl.mu.Unlock()
	var out []*Conn
	for _, n := range nodes {
		n.mu.Lock()
		for c := range n.conns {
			out = append(out, c)
		}
		n.mu.Unlock()
	}
	sort.Slice(out, func(i, j int) bool { return out[i].ID < out[j].ID })
	return out
}

func (n *Node) Up() bool { n.mu.Lock(); defer n.mu.Unlock(); return n.up }

func (n *Node) Start() error {
	n.mu.Lock()
	defer n.mu.Unlock()
	if n.up {
		return nil
	}
	var ln net.Listener
	var err error
	for i := 0; i < 50; i++ { // the port may linger for a moment after Stop
		ln, err = net.Listen("tcp", fmt.Sprintf("%s:%d", n.IP, n.cl.Port))
		if err == nil {
			break
		}
		time.Sleep(20 * time.Millisecond)
	}
	if err != nil {
		return err
	}
	n.ln = ln
	n.up = true
	go n.accept(ln)
	return nil
}

// Stop closes the listener and every connection (the node is down).
func (n *Node) Stop() {
	n.mu.Lock()
	if n.ln != nil {
		_ = n.ln.Close()
		n.ln = nil
	}
	n.up = false
	conns := make([]*Conn, 0, len(n.conns))
	for c := range n.conns {
		conns = append(conns, c)
	}
	n.mu.Unlock()
	for _, c := range conns {
		c.Close()
	}
}

// DropConns closes every open connection but keeps listening (connection loss, node stays up).
func (n *Node) DropConns(filter func(c interface{ Registered() bool }) bool) int {
	n.mu.Lock()
	conns := make([]*Conn, 0, len(n.conns))
	for c := range n.conns {
		conns = append(conns, c)
	}
	n.mu.Unlock()
	k := 0
	for _, c := range conns {
		if filter == nil || filter(c) {
			c.Close()
			k++
		}
	}
	return k
}

func (n *Node) Conns() []*Conn {
	n.mu.Lock()
	defer n.mu.Unlock()
	out := make([]*Conn, 0, len(n.conns))
	for c := range n.conns {
		out = append(out, c)
	}
	sort.Slice(out, func(i, j int) bool { return out[i].ID < out[j].ID })
	return out
}

func (n *Node) accept(ln net.Listener) {
	for {
		c, err := ln.Accept()
		if err != nil {
			return
		}
		if tc, ok := c.(*net.TCPConn); ok {
			_ = tc.SetNoDelay(true)
		}
		n.cl.mu.Lock()
		n.cl.connSeq++
		id := n.cl.connSeq
		n.cl.mu.Unlock()
		conn := &Conn{ID: id, Node: n, c: c}
		n.mu.Lock()
		if !n.up {
			n.mu.Unlock()
			_ = c.Close()
			continue
		}
		n.conns[conn] = struct{}{}
		n.mu.Unlock()
		n.cl.mu.Lock()
		onConnect := n.cl.OnConnect
		n.cl.mu.Unlock()
		if onConnect != nil {
			onConnect(conn)
		}
		go conn.serve()
	}
}

func (c *Conn) Close() {
	c.mu.Lock()
	c.closed = true
	c.mu.Unlock()
	_ = c.c.Close()
	c.Node.mu.Lock()
	delete(c.Node.conns, c)
	c.Node.mu.Unlock()
}

func (c *Conn) write(f func(w io.Writer) error) error {
	var buf bytes.Buffer
	if err := f(&buf); err != nil {
		return err
	}
	c.wmu.Lock()
	defer c.wmu.Unlock()
	_, err := c.c.Write(buf.Bytes())
	return err
}

// WriteRaw writes arbitrary bytes on the connection (unsolicited / garbage frames).
func (c *Conn) WriteRaw(b []byte) error {
	return c.write(func(w io.Writer) error { _, err := w.Write(b); return err })
}

func (c *Conn) Send(version primitive.ProtocolVersion, stream int16, msg message.Message) error {
	f := frame.NewFrame(version, stream, msg)
	c.maybeCompress(f)
	return c.write(func(w io.Writer) error { return Codec(c.Compression).EncodeFrame(f, w) })
}

// maybeCompress marks a frame for body compression as a real node does once compression was negotiated.
func (c *Conn) maybeCompress(f *frame.Frame) {
	c.mu.Lock()
	comp := c.Compression
	c.mu.Unlock()
	if comp != "" && f.Header.OpCode != primitive.OpCodeReady && f.Header.OpCode != primitive.OpCodeSupported {
		f.SetCompress(true)
	}
}

func (c *Conn) serve() {
	defer c.Close()
	for {
		hdr := make([]byte, 9)
		if _, err := io.ReadFull(c.c, hdr); err != nil {
			return
		}
		blen := int(int32(binary.BigEndian.Uint32(hdr[5:9])))
		if blen < 0 || blen > 256<<20 {
			return
		}
		body := make([]byte, blen)
		if _, err := io.ReadFull(c.c, body); err != nil {
			return
		}
		c.handle(hdr, body)
	}
}

func (c *Conn) handle(rawHdr, rawBody []byte) {
	cl := c.Node.cl
	codec := Codec(c.Compression)
	var frm *frame.Frame
	header, err := codec.DecodeHeader(bytes.NewReader(rawHdr))
	if err == nil {
		var raw *frame.RawFrame
		raw = &frame.RawFrame{Header: header, Body: rawBody}
		frm, err = codec.ConvertFromRawFrame(raw)
	}
	if header == nil {
		return
	}
	nodeMax := cl.MaxVersion
	if v := atomic.LoadInt32(&c.Node.maxVersion); v != 0 {
		nodeMax = primitive.ProtocolVersion(v)
	}
	if header.Version > nodeMax || header.Version < primitive.ProtocolVersion3 {
		// what Cassandra does; lets the proxy's control connection negotiate downwards
		v := nodeMax
		_ = c.write(func(w io.Writer) error {
			return plainCodec.EncodeFrame(frame.NewFrame(v, header.StreamId, &message.ProtocolError{
				ErrorMessage: fmt.Sprintf("Invalid or unsupported protocol version (%d)", header.Version)}), w)
		})
		return
	}
	if frm != nil {
		switch m := frm.Body.Message.(type) {
		case *message.Options:
			if cl.OptionsHandler != nil {
				if r, ok := cl.OptionsHandler(c, header); ok {
					c.respond(header, r)
					return
				}
			}
			_ = c.Send(header.Version, header.StreamId, &message.Supported{Options: map[string][]string{
				"CQL_VERSION": {"3.4.5"}, "COMPRESSION": {"lz4", "snappy"}}})
			return
		case *message.Startup:
			cl.mu.Lock()
			sh := cl.StartupHandler
			cl.mu.Unlock()
			if sh != nil {
				if r, ok := sh(c, header); ok {
					c.respond(header, r)
					return
				}
			}
			c.mu.Lock()
			c.Version = header.Version
			c.mu.Unlock()
			comp := ""
			if v, ok := m.Options["COMPRESSION"]; ok {
				comp = strings.ToLower(v)
			}
			cl.mu.Lock()
			auth := cl.Auth
			cl.mu.Unlock()
			if auth != "" {
				name := "org.apache.cassandra.auth.PasswordAuthenticator"
				if auth == "dse" {
					name = "com.datastax.bdp.cassandra.auth.DseAuthenticator"
				}
				_ = c.Send(header.Version, header.StreamId, &message.Authenticate{Authenticator: name})
				c.mu.Lock()
				c.Compression = comp
				c.authStep = 1
				c.mu.Unlock()
				return
			}
			// READY is sent uncompressed-flagged by the library codec only when the codec has no compressor;
			// real servers answer STARTUP before enabling compression.
			_ = c.Send(header.Version, header.StreamId, &message.Ready{})
			c.mu.Lock()
			c.Compression = comp
			c.mu.Unlock()
			return
		case *message.AuthResponse:
			cl.mu.Lock()
			auth := cl.Auth
			cl.mu.Unlock()
			c.mu.Lock()
			step := c.authStep
			c.mu.Unlock()
			good := string(m.Token) == "\x00user\x00pw"
			switch {
			case auth == "dse" && step == 1 && string(m.Token) == "PLAIN":
				c.mu.Lock()
				c.authStep = 2
				c.mu.Unlock()
				_ = c.Send(header.Version, header.StreamId, &message.AuthChallenge{Token: []byte("PLAIN-START")})
			case (auth == "password" && step == 1 || auth == "dse" && step == 2) && good:
				c.mu.Lock()
				c.authStep = 3
				c.mu.Unlock()
				_ = c.Send(header.Version, header.StreamId, &message.AuthSuccess{})
			default:
				_ = c.Send(header.Version, header.StreamId, &message.AuthenticationError{ErrorMessage: "bad credentials"})
			}
			return
		case *message.Register:
			c.mu.Lock()
			c.registered = true
			c.mu.Unlock()
			_ = c.Send(header.Version, header.StreamId, &message.Ready{})
			cl.mu.Lock()
			after := cl.AfterRegister
			cl.mu.Unlock()
			if after != nil {
				after(c)
			}
			return
		case *message.Query:
			q := strings.TrimSpace(m.Query)
			up := strings.ToUpper(q)
			if strings.HasPrefix(up, "USE ") && header.StreamId >= 0 && !cl.isTokenised(q) {
				ks := strings.TrimSpace(q[4:])
				canon := ks
				if len(ks) >= 2 && ks[0] == '"' && ks[len(ks)-1] == '"' {
					canon = strings.ReplaceAll(ks[1:len(ks)-1], "\"\"", "\"")
				} else {
					canon = strings.ToLower(ks)
				}
				cl.mu.Lock()
				missing := cl.MissingKeyspaces[canon]
				slow := cl.SlowKeyspaces[canon]
				cl.mu.Unlock()
				if slow > 0 {
					go func() {
						time.Sleep(slow)
						c.mu.Lock()
						c.keyspace = canon
						c.mu.Unlock()
						_ = c.Send(header.Version, header.StreamId, &message.SetKeyspaceResult{Keyspace: canon})
					}()
					return
				}
				if missing || canon == "" { // Cassandra rejects the empty keyspace name
					_ = c.Send(header.Version, header.StreamId, &message.Invalid{ErrorMessage: fmt.Sprintf("Keyspace '%s' does not exist", canon)})
				} else {
					c.mu.Lock()
					c.keyspace = canon
					c.mu.Unlock()
					_ = c.Send(header.Version, header.StreamId, &message.SetKeyspaceResult{Keyspace: canon})
				}
				return
			}
			if q == "SELECT * FROM system.local" || q == "SELECT * FROM system.peers" {
				if cl.SystemHandler != nil {
					if r, ok := cl.SystemHandler(c, q); ok {
						c.respond(header, r)
						return
					}
				}
				_ = c.Send(header.Version, header.StreamId, cl.systemRows(c.Node, q == "SELECT * FROM system.local"))
				return
			}
		}
	}
	cl.mu.Lock()
	cl.seq++
	rq := &Request{Seq: cl.seq, Conn: c, Node: c.Node.IP, Header: *header, RawHeader: rawHdr, RawBody: rawBody,
		Frame: frm, DecodeErr: err, Keyspace: c.Keyspace(), Compression: c.Compression}
	cl.log = append(cl.log, rq)
	h := cl.Handler
	cl.mu.Unlock()
	resp := Response{Kind: RespMsg, Msg: &message.VoidResult{}}
	if h != nil {
		resp = h(rq)
	}
	record := func(b []byte) { rq.mu.Lock(); rq.sent = append(rq.sent, b...); rq.mu.Unlock() }
	if resp.Delay > 0 {
		go func() { time.Sleep(resp.Delay); c.respondRec(header, resp, record) }()
	} else {
		c.respondRec(header, resp, record)
	}
}

func (cl *Cluster) isTokenised(q string) bool { return false }

func (c *Conn) respond(header *frame.Header, resp Response) { c.respondRec(header, resp, nil) }

func (c *Conn) respondRec(header *frame.Header, resp Response, record func([]byte)) {
	stream := header.StreamId
	if resp.Stream != nil {
		stream = *resp.Stream
	}
	switch resp.Kind {
	case RespMsg:
		f := frame.NewFrame(header.Version, stream, resp.Msg)
		if resp.TracingId != nil {
			f.SetTracingId(resp.TracingId)
		}
		if resp.Warnings != nil {
			f.SetWarnings(resp.Warnings)
		}
		if resp.CustomPayload != nil {
			f.SetCustomPayload(resp.CustomPayload)
		}
		if !resp.NoCompress {
			c.maybeCompress(f)
		}
		_ = c.write(func(w io.Writer) error {
			var buf bytes.Buffer
			if err := Codec(c.Compression).EncodeFrame(f, &buf); err != nil {
				return err
			}
			if record != nil {
				record(buf.Bytes())
			}
			_, err := w.Write(buf.Bytes())
			return err
		})
	case RespRaw:
		if record != nil {
			record(resp.Raw)
		}
		_ = c.WriteRaw(resp.Raw)
	case RespSilent:
	case RespClose:
		c.Close()
	}
	if resp.Then != nil {
		resp.Then()
	}
}

func col(name string, t datatype.DataType, i int32, table string) *message.ColumnMetadata {
	return &message.ColumnMetadata{Keyspace: "system", Table: table, Name: name, Index: i, Type: t}
}

func inetBytes(ip string) []byte {
	p := net.ParseIP(ip)
	if p4 := p.To4(); p4 != nil {
		return p4
	}
	return p
}

// SetDSEVersion changes what the nodes report as dse_version from now on (a node of another kind takes over).
func (cl *Cluster) SetDSEVersion(v string) { cl.mu.Lock(); cl.DSEVersion = v; cl.mu.Unlock() }

func (cl *Cluster) systemRows(self *Node, local bool) message.Message {
	cl.mu.Lock()
	defer cl.mu.Unlock()
	if local {
		cols := []*message.ColumnMetadata{
			col("key", datatype.Varchar, 0, "local"), col("rpc_address", datatype.Inet, 1, "local"),
			col("data_center", datatype.Varchar, 2, "local"), col("partitioner", datatype.Varchar, 3, "local"),
			col("release_version", datatype.Varchar, 4, "local"), col("cql_version", datatype.Varchar, 5, "local"),
		}
		row := message.Row{[]byte("local"), inetBytes(self.IP), []byte(self.DC), []byte("org.apache.cassandra.dht.Murmur3Partitioner"),
			[]byte("4.0.0"), []byte("3.4.5")}
		if cl.DSEVersion != "" {
			cols = append(cols, col("dse_version", datatype.Varchar, 6, "local"))
			row = append(row, []byte(cl.DSEVersion))
		}
		return &message.RowsResult{Metadata: &message.RowsMetadata{ColumnCount: int32(len(cols)), Columns: cols}, Data: message.RowSet{row}}
	}
	cols := []*message.ColumnMetadata{col("peer", datatype.Inet, 0, "peers"), col("rpc_address", datatype.Inet, 1, "peers"),
		col("data_center", datatype.Varchar, 2, "peers")}
	var rows message.RowSet
	for _, ip := range cl.order {
		n := cl.nodes[ip]
		if n == self || !n.Listed {
			continue
		}
		rows = append(rows, message.Row{inetBytes(ip), inetBytes(ip), []byte(n.DC)})
	}
	return &message.RowsResult{Metadata: &message.RowsMetadata{ColumnCount: int32(len(cols)), Columns: cols}, Data: rows}
}

var ErrTimeout = errors.New("timeout")
