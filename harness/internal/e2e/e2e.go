// Package e2e runs the real proxy.Proxy in-process between harness clients and a fakecass
// cluster on loopback.
package e2e

import (
	"crypto/ecdsa"
	"crypto/elliptic"
	crand "crypto/rand"
	"crypto/tls"
	"crypto/x509"
	"crypto/x509/pkix"
	"math/big"
	"bytes"
	"context"
	"encoding/binary"
	"errors"
	"fmt"
	"io"
	"net"
	"sync"
	"sync/atomic"
	"time"

	"github.com/datastax/cql-proxy/proxy"
	"github.com/datastax/cql-proxy/proxycore"
	"github.com/datastax/go-cassandra-native-protocol/frame"
	"github.com/datastax/go-cassandra-native-protocol/message"
	"github.com/datastax/go-cassandra-native-protocol/primitive"
	"verifharness/internal/fakecass"
)

type Options struct {
	Hosts           int
	NumConns        int
	Version         primitive.ProtocolVersion // proxy → backend version (0 = v4)
	MaxVersion      primitive.ProtocolVersion // accepted from clients (0 = v4)
	BackendMax      primitive.ProtocolVersion // what fakecass accepts (0 = same as MaxVersion / v4)
	IdempotentGraph bool
	Unsupported     []uint16
	Override        uint16
	HasOverride     bool
	DSEVersion      string
	RPCAddr, DC     string
	Tokens          []string
	Peers           []proxy.PeerConfig
	HeartBeat       time.Duration
	IdleTimeout     time.Duration
	ReconnectBase   time.Duration
	ReconnectMax    time.Duration
	ConnectTimeout  time.Duration
	Auth            string // "password" / "dse": the backend authenticates connections, the proxy is given the credentials
	TLS             bool // clients connect to the proxy over TLS (as with --proxy-cert-file / --proxy-key-file)
	PreparedCache   proxycore.PreparedCache
	RefreshHook     func()
}

type Env struct {
	Cluster *fakecass.Cluster
	Proxy   *proxy.Proxy
	Addr    string
	IPs     []string
	cancel  context.CancelFunc
	ln      net.Listener
	TLS     bool
	subnet  int
}

var envSeq int32 = int32(time.Now().UnixNano()%200) + 1

// freePort finds a port that is free on the first address of the subnet.
// FreePort finds a port that is free on the given address.
func FreePort(ip string) (int, error) { return freePort(ip) }

func freePort(ip string) (int, error) {
	var ln net.Listener
	var err error
	for try := 0; try < 400; try++ {
		if ln, err = net.Listen("tcp", ip+":0"); err == nil {
			break
		}
		time.Sleep(50 * time.Millisecond)
	}
	if err != nil {
		return 0, err
	}
	defer ln.Close()
	return ln.Addr().(*net.TCPAddr).Port, nil
}

func Start(o Options) (*Env, error) {
	if o.Hosts == 0 {
		o.Hosts = 1
	}
	if o.NumConns == 0 {
		o.NumConns = 1
	}
	if o.MaxVersion == 0 {
		o.MaxVersion = primitive.ProtocolVersion4
	}
	if o.Version == 0 {
		o.Version = primitive.ProtocolVersion4
	}
	if o.BackendMax == 0 {
		o.BackendMax = o.MaxVersion
		if o.Version > o.BackendMax {
			o.BackendMax = o.Version
		}
	}
	if o.HeartBeat == 0 {
		o.HeartBeat = time.Hour
	}
	if o.IdleTimeout == 0 {
		o.IdleTimeout = 2 * time.Hour
	}
	if o.ConnectTimeout == 0 {
		o.ConnectTimeout = 2 * time.Second
	}
	if o.ReconnectBase == 0 {
		o.ReconnectBase = 20 * time.Millisecond
	}
	if o.ReconnectMax == 0 {
		o.ReconnectMax = 200 * time.Millisecond
	}
	subnet := int(atomic.AddInt32(&envSeq, 1)%250) + 1
	first := fmt.Sprintf("127.%d.0.1", subnet)
	port, err := freePort(first)
	if err != nil {
		return nil, err
	}
	cl := fakecass.NewCluster(port)
	cl.MaxVersion = o.BackendMax
	cl.DSEVersion = o.DSEVersion
	cl.Auth = o.Auth
	e := &Env{Cluster: cl, subnet: subnet}
	for i := 0; i < o.Hosts; i++ {
		ip := fmt.Sprintf("127.%d.0.%d", subnet, i+1)
		if _, err := cl.AddNode(ip, "dc1"); err != nil {
			cl.Shutdown()
			return nil, err
		}
		e.IPs = append(e.IPs, ip)
	}
	ctx, cancel := context.WithCancel(context.Background())
	e.cancel = cancel
	cfg := proxy.Config{
		Version:           o.Version,
		MaxVersion:        o.MaxVersion,
		Resolver:          proxycore.NewResolverWithDefaultPort([]string{first}, port),
		ReconnectPolicy:   proxycore.NewReconnectPolicyWithDelays(o.ReconnectBase, o.ReconnectMax),
		NumConns:          o.NumConns,
		HeartBeatInterval: o.HeartBeat,
		IdleTimeout:       o.IdleTimeout,
		ConnectTimeout:    o.ConnectTimeout,
		IdempotentGraph:   o.IdempotentGraph,
		RPCAddr:           o.RPCAddr,
		DC:                o.DC,
		Tokens:            o.Tokens,
		Peers:             o.Peers,
		PreparedCache:     o.PreparedCache,
	}
	if o.Auth != "" {
		cfg.Auth = proxycore.NewPasswordAuth("user", "pw")
	}
	if o.HasOverride {
		proxy.VerifSetWriteConsistencyOverride(&cfg, o.Unsupported, o.Override)
	}
	e.Proxy = proxy.NewProxy(ctx, cfg)
	if err := e.Proxy.Connect(); err != nil {
		e.Close()
		return nil, fmt.Errorf("proxy connect: %w", err)
	}
	// thousands of short-lived connections leave the loopback short of ephemeral ports for a moment: try again
	var ln net.Listener
	for try := 0; try < 400; try++ {
		if ln, err = net.Listen("tcp", "127.0.0.1:0"); err == nil {
			break
		}
		time.Sleep(50 * time.Millisecond)
	}
	if err != nil {
		e.Close()
		return nil, err
	}
	if o.TLS {
		cert, cerr := selfSigned()
		if cerr != nil {
			e.Close()
			return nil, cerr
		}
		ln = tls.NewListener(ln, &tls.Config{Certificates: []tls.Certificate{cert}})
		e.TLS = true
	}
	e.ln = ln
	e.Addr = ln.Addr().String()
	go func() { _ = e.Proxy.Serve(ln) }()
	return e, nil
}

// NextIP returns an unused address in this environment's subnet (for nodes added later).
func (e *Env) NextIP() string {
	ip := fmt.Sprintf("127.%d.0.%d", e.subnet, len(e.IPs)+1)
	e.IPs = append(e.IPs, ip)
	return ip
}

func (e *Env) Close() {
	if e.Proxy != nil {
		_ = e.Proxy.Close()
	}
	if e.cancel != nil {
		e.cancel()
	}
	if e.ln != nil {
		_ = e.ln.Close()
	}
	e.Cluster.Shutdown()
}

// Client is a raw native-protocol client of the proxy.
type Client struct {
	c           net.Conn
	Version     primitive.ProtocolVersion
	Compression string
	rmu         sync.Mutex
}

type Reply struct {
	Header    *frame.Header
	RawHeader []byte
	RawBody   []byte
	Frame     *frame.Frame // decoded with the reference codec (nil if undecodable)
	Err       error
}

func DialRaw(addr string) (*Client, error) {
	c, err := net.DialTimeout("tcp", addr, 2*time.Second)
	if err != nil {
		return nil, err
	}
	if tc, ok := c.(*net.TCPConn); ok {
		_ = tc.SetNoDelay(true)
	}
	return &Client{c: c, Version: primitive.ProtocolVersion4}, nil
}

// Dial connects and performs STARTUP with the given version and compression.
func (e *Env) Dial(version primitive.ProtocolVersion, compression string) (*Client, error) {
	var cl *Client
	var err error
	if e.TLS {
		d := &net.Dialer{Timeout: 2 * time.Second}
		c, derr := tls.DialWithDialer(d, "tcp", e.Addr, &tls.Config{InsecureSkipVerify: true})
		if derr != nil {
			return nil, derr
		}
		cl = &Client{c: c, Version: primitive.ProtocolVersion4}
	} else {
		cl, err = DialRaw(e.Addr)
	}
	if err != nil {
		return nil, err
	}
	cl.Version = version
	opts := map[string]string{"CQL_VERSION": "3.0.0"}
	if compression != "" {
		opts["COMPRESSION"] = compression
	}
	if err := cl.Send(0, &message.Startup{Options: opts}); err != nil {
		cl.Close()
		return nil, err
	}
	cl.Compression = compression // replies after STARTUP use the negotiated compression
	r, err := cl.Recv(3 * time.Second)
	if err != nil {
		cl.Close()
		return nil, err
	}
	if r.Frame == nil {
		cl.Close()
		return nil, fmt.Errorf("undecodable STARTUP reply: %v", r.Err)
	}
	if _, ok := r.Frame.Body.Message.(*message.Ready); !ok {
		cl.Close()
		return nil, fmt.Errorf("STARTUP answered with %v", r.Frame.Body.Message)
	}
	return cl, nil
}

// Close resets the connection (no TIME_WAIT: tens of thousands of short cases would otherwise exhaust the loopback's
// ephemeral ports).
func (c *Client) Close() {
	if tc, ok := c.c.(*net.TCPConn); ok {
		_ = tc.SetLinger(0)
	}
	_ = c.c.Close()
}

func (c *Client) WriteBytes(b []byte) error {
	_ = c.c.SetWriteDeadline(time.Now().Add(5 * time.Second))
	_, err := c.c.Write(b)
	return err
}

// Encode renders a request frame with the reference codec (the bytes a driver would send).
func (c *Client) Encode(stream int16, msg message.Message, mod func(f *frame.Frame)) ([]byte, error) {
	f := frame.NewFrame(c.Version, stream, msg)
	if c.Compression != "" && f.Header.OpCode != primitive.OpCodeStartup && f.Header.OpCode != primitive.OpCodeOptions {
		f.SetCompress(true) // what a driver does once compression was negotiated
	}
	if mod != nil {
		mod(f)
	}
	var buf bytes.Buffer
	if err := fakecass.Codec(c.Compression).EncodeFrame(f, &buf); err != nil {
		return nil, err
	}
	return buf.Bytes(), nil
}

func (c *Client) Send(stream int16, msg message.Message) error {
	b, err := c.Encode(stream, msg, nil)
	if err != nil {
		return err
	}
	return c.WriteBytes(b)
}

var ErrTimeout = errors.New("timeout waiting for a frame")

// Recv reads one frame (any stream).
func (c *Client) Recv(timeout time.Duration) (*Reply, error) {
	c.rmu.Lock()
	defer c.rmu.Unlock()
	_ = c.c.SetReadDeadline(time.Now().Add(timeout))
	first := make([]byte, 1)
	if _, err := io.ReadFull(c.c, first); err != nil {
		var ne net.Error
		if errors.As(err, &ne) && ne.Timeout() {
			return nil, ErrTimeout
		}
		return nil, err
	}
	hlen := 9
	if first[0]&0x7f <= 2 { // protocol v1/v2 frames carry a one-byte stream id
		hlen = 8
	}
	hdr := make([]byte, hlen)
	hdr[0] = first[0]
	if _, err := io.ReadFull(c.c, hdr[1:]); err != nil {
		return nil, err
	}
	blen := int(int32(binary.BigEndian.Uint32(hdr[hlen-4 : hlen])))
	if blen < 0 || blen > 256<<20 {
		return nil, fmt.Errorf("bad body length %d", blen)
	}
	body := make([]byte, blen)
	_ = c.c.SetReadDeadline(time.Now().Add(timeout + 5*time.Second))
	if _, err := io.ReadFull(c.c, body); err != nil {
		return nil, err
	}
	r := &Reply{RawHeader: hdr, RawBody: body}
	codec := fakecass.Codec(c.Compression)
	h, err := codec.DecodeHeader(bytes.NewReader(hdr))
	if err != nil {
		r.Err = err
		return r, nil
	}
	r.Header = h
	f, err := codec.ConvertFromRawFrame(&frame.RawFrame{Header: h, Body: body})
	if err != nil {
		r.Err = err
	} else {
		r.Frame = f
	}
	return r, nil
}

// Quiet returns true if no frame arrives within d.
func (c *Client) Quiet(d time.Duration) (bool, *Reply) {
	r, err := c.Recv(d)
	if err == ErrTimeout {
		return true, nil
	}
	return false, r
}

// WaitLog waits until the cluster log has at least n entries.
func (e *Env) WaitLog(n int, timeout time.Duration) bool {
	deadline := time.Now().Add(timeout)
	for time.Now().Before(deadline) {
		if e.Cluster.LogLen() >= n {
			return true
		}
		time.Sleep(200 * time.Microsecond)
	}
	return e.Cluster.LogLen() >= n
}

var selfSignedOnce struct {
	sync.Once
	cert tls.Certificate
	err  error
}

// selfSigned: a throw-away server certificate for the proxy's client-facing listener.
func selfSigned() (tls.Certificate, error) {
	selfSignedOnce.Do(func() {
		key, err := ecdsa.GenerateKey(elliptic.P256(), crand.Reader)
		if err != nil {
			selfSignedOnce.err = err
			return
		}
		tmpl := &x509.Certificate{SerialNumber: big.NewInt(1), Subject: pkix.Name{CommonName: "cql-proxy"}, NotBefore: time.Now().Add(-time.Hour), NotAfter: time.Now().Add(24 * time.Hour),
			KeyUsage: x509.KeyUsageDigitalSignature, ExtKeyUsage: []x509.ExtKeyUsage{x509.ExtKeyUsageServerAuth}, DNSNames: []string{"localhost"}}
		der, err := x509.CreateCertificate(crand.Reader, tmpl, tmpl, &key.PublicKey, key)
		if err != nil {
			selfSignedOnce.err = err
			return
		}
		selfSignedOnce.cert = tls.Certificate{Certificate: [][]byte{der}, PrivateKey: key}
	})
	return selfSignedOnce.cert, selfSignedOnce.err
}
