#!/usr/bin/env python3
"""Markdown table of the seeded changes and which checks catch them (from seeded/*/meta.json, detect.json, NOTES.json)."""
import glob, json, os, sys, io
root = os.path.join(os.path.dirname(os.path.abspath(__file__)), "..", "seeded")
notes = json.load(open(os.path.join(root, "NOTES.json")))
_out = io.StringIO()
_real = sys.stdout
sys.stdout = _out
print("| change | files | what it breaks (trigger) | caught by | how it shows | note |")
print("|---|---|---|---|---|---|")
for d in sorted(glob.glob(os.path.join(root, "C*-*"))) + sorted(glob.glob(os.path.join(root, "R-*"))):
    name = os.path.basename(d)
    m = json.load(open(os.path.join(d, "meta.json")))
    det = json.load(open(os.path.join(d, "detect.json"))) if os.path.exists(os.path.join(d, "detect.json")) else {}
    caught = [c for c, r in det.items() if r.get("caught")]
    how = []
    for c in caught:
        l = " ".join(det[c]["lines"])
        how.append("failing input" if "no-failing-input-found" not in l else "broken obligation, no-failing-input-found")
    trig = (m.get("trigger") or m.get("summary") or "").replace("|", "/").replace("\n", " ")
    if len(trig) > 170:
        trig = trig[:167] + "..."
    print("| %s | %s | %s | %s | %s | %s |" % (name, ", ".join(os.path.basename(f) for f in m.get("files", [])), trig,
          ", ".join(caught) or "**missed**", "; ".join(sorted(set(how))), notes.get(name, "")))

sys.stdout = _real
if "--update" in sys.argv:
    p = os.path.join(root, "..", "DESIGN.md")
    d = open(p).read()
    i, j = d.index("<!-- matrix:begin -->"), d.index("<!-- matrix:end -->")
    open(p, "w").write(d[:i] + "<!-- matrix:begin -->\n" + _out.getvalue() + d[j:])
else:
    sys.stdout.write(_out.getvalue())
