#!/usr/bin/env python3
"""Seeded-change bookkeeping.

  seedrun.py confirm <seeddir> <worktree>   re-check a proposed change in a scratch worktree: applies to the current HEAD,
                                            builds, passes the existing suite, its demonstration fails with it and passes without
  seedrun.py keep <seeddir> <name>          copy a confirmed change to /verif/seeded/<name>/
  seedrun.py detect <name> [check ids...]   apply /verif/seeded/<name>/patch.diff to /repo, run the quick checks, undo; records
                                            the outcome in /verif/seeded/<name>/detect.json
"""
import json, os, re, shutil, subprocess, sys, time

ENV = dict(os.environ, GOFLAGS="-mod=mod", GOPROXY="off")
ENV.pop("GOTOOLCHAIN", None)
SEEDED = "/verif/seeded"


def sh(cmd, cwd=None, timeout=3600):
    p = subprocess.run(cmd, shell=True, cwd=cwd, env=ENV, capture_output=True, text=True, errors="replace", timeout=timeout)
    return p.returncode, (p.stdout + p.stderr)


def confirm(seeddir, wt):
    meta = json.load(open(os.path.join(seeddir, "meta.json")))
    head = subprocess.check_output(["git", "-C", "/repo", "rev-parse", "HEAD"], text=True).strip()
    res = {"head": head}
    sh("git checkout -q --detach %s && git checkout -- . && git clean -fdq" % head, cwd=wt)
    rc, out = sh("git apply --check %s/patch.diff && git apply %s/patch.diff" % (seeddir, seeddir), cwd=wt)
    if rc != 0:
        # the repository moved on since the change was proposed: carry it over with a three-way merge and keep the
        # carried-over diff as the patch
        rc, out = sh("git apply --3way %s/patch.diff" % seeddir, cwd=wt)
        if rc == 0:
            rc2, diff = sh("git diff HEAD", cwd=wt)
            shutil.copyfile(os.path.join(seeddir, "patch.diff"), os.path.join(seeddir, "patch.orig.diff"))
            open(os.path.join(seeddir, "patch.diff"), "w").write(diff)
            sh("git reset -q", cwd=wt)
            res["rebased"] = True
    res["applies"] = rc == 0
    if rc != 0:
        res["apply_error"] = out[-800:]
        return res
    rc, out = sh("go build ./...", cwd=wt)
    res["builds"] = rc == 0
    rc, out = sh("unshare -rn sh -c 'ip link set lo up; go test -vet=off -count=1 ./... 2>&1 | tail -12'", cwd=wt, timeout=2400)
    res["suite_passes"] = ("FAIL" not in out) and ("ok" in out)
    res["suite_tail"] = out[-600:]
    demo = meta.get("demo_cmd", "")
    if "demo_test.go" not in demo:
        # the command does not place the demonstration itself: put it into the package it runs
        pk = re.findall(r"\./([a-z]+)/?(?=[\s'\"]|$)", demo)
        if pk:
            demo = "cp %s/demo_test.go %s/%s/zz_demo_test.go && %s" % (seeddir, wt, pk[-1], demo)
            meta["demo_cmd"] = demo
    m = re.search(r"cp \S*demo_test\.go (\S+)", demo)
    target = m.group(1) if m else None
    rc, out = sh(demo, cwd=wt, timeout=1200)
    bad = lambda rc, out: rc != 0 or any(w in out for w in ("FAIL", "panic:", "DATA RACE", "fatal error:"))
    res["demo_fails_with_change"] = bad(rc, out)
    res["demo_with_tail"] = out[-500:]
    sh("git checkout -- .", cwd=wt)  # the demo file (untracked) stays
    rc, out = sh(demo, cwd=wt, timeout=1200)
    res["demo_passes_without"] = not bad(rc, out)
    res["demo_without_tail"] = out[-300:]
    sh("git checkout -- . && git clean -fdq", cwd=wt)
    if target:
        t = target if target.startswith("/") else os.path.join(wt, target)
        if os.path.exists(t):
            os.unlink(t)
    res["confirmed"] = all(res.get(k) for k in ("applies", "builds", "suite_passes", "demo_fails_with_change", "demo_passes_without"))
    json.dump(res, open(os.path.join(seeddir, "confirm.json"), "w"), indent=1)
    return res


def keep(seeddir, name):
    d = os.path.join(SEEDED, name)
    os.makedirs(d, exist_ok=True)
    for f in ("patch.diff", "demo_test.go", "demo.go", "demo_output.txt"):
        if os.path.exists(os.path.join(seeddir, f)):
            shutil.copyfile(os.path.join(seeddir, f), os.path.join(d, f))
    meta = json.load(open(os.path.join(seeddir, "meta.json")))
    c = json.load(open(os.path.join(seeddir, "confirm.json")))
    meta["confirmed_at_head"] = c.get("head")
    meta["confirmation"] = {k: c.get(k) for k in ("applies", "builds", "suite_passes", "demo_fails_with_change", "demo_passes_without")}
    meta["origin"] = "fresh sub-agent given only the property text and a scratch worktree"
    json.dump(meta, open(os.path.join(d, "meta.json"), "w"), indent=1)


def detect(name, checks):
    d = os.path.join(SEEDED, name)
    meta = json.load(open(os.path.join(d, "meta.json")))
    if not checks:
        checks = [meta["property"]]
    rc, out = sh("git -C /repo status --porcelain")
    if out.strip():
        print("refusing: /repo is not clean"); sys.exit(2)
    rc, out = sh("git -C /repo apply %s/patch.diff" % d)
    if rc != 0:
        print("patch does not apply:", out[-400:]); sys.exit(2)
    res = {}
    saved = {}
    for c in checks:  # the evidence files describe the unchanged tree: put them back afterwards
        ep = "/verif/evidence/%s.json" % c
        if os.path.exists(ep):
            saved[ep] = open(ep).read()
    try:
        for c in checks:
            t0 = time.time()
            rc, out = sh("./check %s quick" % c, cwd="/verif", timeout=3600)
            lines = [l for l in out.split("\n") if l.startswith("VIOLATION") or l.startswith("KNOWN-FINDING") or l.startswith(c + " ")]
            res[c] = {"exit": rc, "caught": rc != 0 and any(l.startswith("VIOLATION") for l in lines), "lines": lines[:6], "seconds": round(time.time() - t0)}
            print(name, c, "exit", rc, "|", " | ".join(lines)[:400])
    finally:
        sh("git -C /repo checkout -- . && git -C /repo clean -fdq")
        for ep, txt in saved.items():
            open(ep, "w").write(txt)
    old = {}
    p = os.path.join(d, "detect.json")
    if os.path.exists(p):
        old = json.load(open(p))
    old.update(res)
    json.dump(old, open(p, "w"), indent=1)


if __name__ == "__main__":
    if sys.argv[1] == "confirm":
        r = confirm(sys.argv[2], sys.argv[3])
        print(sys.argv[2], "confirmed" if r.get("confirmed") else "NOT confirmed", {k: v for k, v in r.items() if isinstance(v, bool)})
    elif sys.argv[1] == "keep":
        keep(sys.argv[2], sys.argv[3])
    elif sys.argv[1] == "detect":
        detect(sys.argv[2], sys.argv[3:])
