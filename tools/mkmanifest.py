#!/usr/bin/env python3
"""Regenerates MANIFEST.json from vlib/props.py (claimed properties) and properties.jsonl."""
import json, os, subprocess, sys
ROOT = os.path.dirname(os.path.dirname(os.path.abspath(__file__)))
sys.path.insert(0, ROOT)
from vlib.props import PROPS, NOT_APPLICABLE

props = [json.loads(l) for l in open(os.path.join(ROOT, "properties.jsonl"))]
hooks = subprocess.run("git -C /repo log --format=%h --grep='^verif hooks' ", shell=True, capture_output=True, text=True).stdout.split()
m = {
    "version": 1,
    "setup_cmd": "./setup.sh",
    "hooks": {
        "guard": "verif",
        "enable": "go build -tags verif (hook files are //go:build verif; call sites inserted into existing files resolve to empty inlined functions without the tag)",
        "baseline_off_cmd": "cd /repo && GOFLAGS=-mod=mod go test -json -vet=off -count=1 -timeout 25m ./...",
        "source_commits": hooks,
        "add_only": True,
    },
    "engines": [{
        "name": "lean-proof+correspondence", "path": "check", "serves_properties": sorted(PROPS),
        "kind_free_text": "Lean 4 theorems about executable models (lean/CqlVerif), tied to /repo by regenerated tables/facts and by a differential correspondence check (Go harness vh vs Lean driver); Spec oracles evaluated on the real outputs search for failing inputs",
    }],
    "checks": [],
    "notes": "DESIGN.md explains approach, trusted base and findings; known_findings.json lists fixed/open findings.",
    "not_applicable": [],
}
for p in props:
    pid = p["id"]
    if pid in PROPS:
        c = PROPS[pid]
        m["checks"].append({
            "property_id": pid,
            "quick_cmd": "./check %s quick" % pid,
            "thorough_cmd": "./check %s thorough" % pid,
            "evidence_file": "evidence/%s.json" % pid,
            "replay_cmd_template": "./check %s --replay {path}" % pid,
            "engine": "lean-proof+correspondence",
            "level_claimed": {"category": c.get("level", "proof"), "text": c["claim"], "design_ref": "DESIGN.md §5 " + pid},
            "level_note": c["note"],
            "technique": c.get("technique", "Lean 4 proof over an executable model + differential correspondence with the Go code"),
        })
    else:
        m["not_applicable"].append({"property_id": pid, "reason": NOT_APPLICABLE.get(pid, "not yet built in this framework (work in progress; see DESIGN.md §10)")})
json.dump(m, open(os.path.join(ROOT, "MANIFEST.json"), "w"), indent=1)
print("claimed:", " ".join(sorted(PROPS)), "| not applicable:", len(m["not_applicable"]))
