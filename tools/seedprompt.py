#!/usr/bin/env python3
"""Prepare a round of seeded-change requests: one scratch worktree of /repo and one self-contained prompt per
property, for sub-agents that see nothing of /verif.  usage: seedprompt.py <round-number> <property id>...
Writes /tmp/seedwork<round>/<id>/prompt.txt and creates /tmp/wt<round>-<id>.  Results are taken over with
tools/seedrun.py (confirm / keep / detect); the worktrees are removed afterwards."""
import glob, json, os, subprocess, sys

rnd = sys.argv[1]
props = {json.loads(l)['id']: json.loads(l) for l in open('/verif/properties.jsonl')}
head = subprocess.check_output(['git', '-C', '/repo', 'rev-parse', 'HEAD'], text=True).strip()
for pid in sys.argv[2:]:
    p = props[pid]
    wt = '/tmp/wt%s-%s' % (rnd, pid)
    work = '/tmp/seedwork%s/%s' % (rnd, pid)
    if not os.path.exists(wt):
        subprocess.run(['git', '-C', '/repo', 'worktree', 'add', '-q', '--detach', wt, head], check=True)
    os.makedirs(work, exist_ok=True)
    prev = []
    for d in sorted(glob.glob('/verif/seeded/%s-*' % pid)):
        m = json.load(open(d + '/meta.json'))
        prev.append('- %s: %s' % (', '.join(m.get('files', [])), (m.get('summary') or '')[:300].replace('\n', ' ')))
    txt = json.dumps({k: p[k] for k in ('id', 'title', 'statement', 'quantifier', 'why_tests_cant', 'anchors')}, indent=1)
    prompt = f"""You are helping evaluate a verification tool for the Go project datastax/cql-proxy (a client-side CQL sidecar proxy). Act as a careless-but-plausible developer: produce TWO different, independent source changes ("mutants" A and B) to the project, each of which BREAKS the semantic property below while the project still compiles and its whole existing test suite still passes.

Your private scratch copy of the repository (a git worktree) is at {wt}. Work ONLY inside {wt} and {work}. Do not read or write /repo, /verif or any other directory; do not look for other verification material. There is no network. Files named verif_*.go in the tree (build tag `verif`) are test hooks: leave them alone and do not rely on them.

Environment for every shell call: `export GOFLAGS=-mod=mod GOPROXY=off` (do not set GOTOOLCHAIN). Build: `cd {wt} && go build ./...`. The test suite binds fixed loopback ports and other people run it on this machine at the same time, so ALWAYS run the suite and your demo inside a private network namespace: `unshare -rn sh -c 'ip link set lo up; cd {wt} && go test -vet=off -count=1 ./... 2>&1 | tail -20'` (takes a minute or two; all packages must be ok).

THE PROPERTY
{txt}

THIS IS A LATER ROUND. These changes were already proposed in earlier rounds - do NOT repeat them or close variants of them:
{chr(10).join(prev)}

Look for breakages of a DIFFERENT KIND than all of those: other functions and files among the anchors (and the code they call), state that lives across requests or connections, error paths of error paths, behaviour after reconnects or retries, interactions between two features (compression x retries, prepared statements x keyspaces, events x failover, protocol versions x anything), boundary values (stream id limits, counters, timers, lengths), ordering of two operations that are individually right. Prefer changes where all common paths keep working perfectly and only a specific input, history, schedule, flag combination or configuration exposes the problem.

REQUIREMENTS FOR EACH MUTANT
1. A realistic change a developer could make in the non-test, non-hook Go source. Small (ideally under 25 changed lines). Never edit *_test.go files, verif_*.go files, go.mod.
2. The project compiles and the full existing test suite passes with it.
3. It really breaks THIS property as stated, and needs something SPECIFIC to manifest.
4. Demonstration: a Go test file (zz_demo_test.go in the relevant package of the worktree; NOT part of the patch) which FAILS with the mutant applied and PASSES on the unmodified tree, deterministically if at all possible. Run it both ways (inside unshare) and record the outputs. The demo command must exit non-zero / print FAIL when the test fails - do not hide the status behind a pipe.
5. The two mutants use different mechanisms / code locations.

DELIVERABLES (for X in A, B) in {work}/X/:
 - patch.diff : `git -C {wt} diff` for the mutant only (without the demo file); must apply with `git apply` to a clean checkout of the same commit.
 - demo_test.go, and demo_output.txt (commands run, failing output with the mutant, passing output without).
 - meta.json : {{"property": "{pid}", "mutant": "X", "summary": "...", "files": [...], "trigger": "...", "tests_pass": true, "demo_cmd": "cp {work}/X/demo_test.go {wt}/<pkg>/zz_demo_test.go && unshare -rn sh -c 'ip link set lo up; cd {wt} && go test -vet=off -count=1 -run <TestName> ./<pkg>/'"}}
Between mutants and at the end restore the worktree: `git -C {wt} checkout -- . && git -C {wt} clean -fdq`. If after honest effort you cannot find a second one that passes the suite, deliver one and say so. Final answer: a short report (under 150 words)."""
    open(work + '/prompt.txt', 'w').write(prompt)
    print(work + '/prompt.txt')
